#![no_main]
//! bytes -> small (n <= 10) structured tessellation input -> the oracles of C05 (no panic, finite,
//! and C02 / C03 / C04 / C01 on the result). A violated oracle panics with a VIOLATION message,
//! which libFuzzer records as a crash; the artifact is converted to a case file by `mvv decode`
//! and re-checked by the plain replay path before anything is reported.
use libfuzzer_sys::fuzz_target;
use mvv::runner::CaseStats;

fuzz_target!(|data: &[u8]| {
    if let Some(c) = mvv::fuzzdec::decode(data, 10, true) {
        let mut cs = CaseStats::default();
        if let Err(m) = mvv::props::c05::check_fuzz(&c, &mut cs) {
            if !m.starts_with("INFRA:") {
                panic!("VIOLATION-C05 {m}");
            }
        }
    }
});
