#![no_main]
//! bytes -> structured case (harness/src/fuzzdec.rs, decode_target) -> the unchanged oracle of
//! C06 (harness/src/props/c06.rs).
use libfuzzer_sys::fuzz_target;

fuzz_target!(|data: &[u8]| {
    mvv::fuzzdec::run_target("fz_c06", data);
});
