#![no_main]
//! bytes -> input + generator index + clip history length + extra site + permutation seed ->
//! the storage-order oracle of C18.
use libfuzzer_sys::fuzz_target;
use mvv::runner::CaseStats;

fuzz_target!(|data: &[u8]| {
    std::env::set_var("MVV_LIGHT", "1");
    if let Some(c) = mvv::fuzzdec::decode(data, 12, false) {
        let mut cs = CaseStats::default();
        if let Err(m) = mvv::props::c18::check(&c, &mut cs) {
            if !m.starts_with("INFRA:") {
                panic!("VIOLATION-C18 {m}");
            }
        }
    }
});
