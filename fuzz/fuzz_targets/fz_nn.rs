#![no_main]
//! bytes -> input + query selectors -> the candidate enumeration oracle of C17.
use libfuzzer_sys::fuzz_target;
use mvv::runner::CaseStats;

fuzz_target!(|data: &[u8]| {
    if let Some(c) = mvv::fuzzdec::decode(data, 40, false) {
        let mut cs = CaseStats::default();
        if let Err(m) = mvv::props::c17::check(&c, &mut cs) {
            if !m.starts_with("INFRA:") {
                panic!("VIOLATION-C17 {m}");
            }
        }
    }
});
