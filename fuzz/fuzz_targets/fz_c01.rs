#![no_main]
//! bytes -> structured case + transform codes (harness/src/fuzzdec.rs, decode_target) -> the
//! metamorphic oracle of C01 (harness/src/meta.rs through props/c01.rs).
use libfuzzer_sys::fuzz_target;

fuzz_target!(|data: &[u8]| {
    mvv::fuzzdec::run_target("fz_c01", data);
});
