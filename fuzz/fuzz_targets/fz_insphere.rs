#![no_main]
//! bytes -> five integer grid points (raw, small grid at an offset, or co-spherical +-1) ->
//! the exact predicate against the harness' independent determinant (C10).
use libfuzzer_sys::fuzz_target;
use mvv::runner::CaseStats;

fuzz_target!(|data: &[u8]| {
    if let Some(t) = mvv::fuzzdec::decode_tuple(data) {
        let mut tup = [[0i64; 3]; 5];
        for p in 0..5 {
            for k in 0..3 {
                tup[p][k] = t[3 * p + k];
            }
        }
        let mut cs = CaseStats::default();
        if let Err(m) = mvv::props::c10::check_tuple(&tup, &mut cs) {
            panic!("VIOLATION-C10 {m}");
        }
    }
});
