//! Downstream implementations of the integral traits of `meshless_voronoi`
//! using only its public, un-hooked API (property C14, first clause: "a downstream
//! crate can define its own cell and face integrals").
//!
//! The recorders store the raw tetrahedra / triangles they are fed, so that the
//! verification harness can evaluate arbitrary polynomial integrands on them.
use glam::DVec3;
use meshless_voronoi::integrals::{
    CellIntegral, CellIntegralWithData, FaceIntegral, FaceIntegralWithData,
};
use meshless_voronoi::{ConvexCell, ConvexCellMarker};

/// Records every tetrahedron fed to a cell integral (no data).
#[derive(Default, Clone, Debug)]
pub struct TetRecorder {
    pub cell_idx: usize,
    pub gen: DVec3,
    pub tets: Vec<[DVec3; 4]>,
    pub finalized: bool,
}

impl CellIntegral for TetRecorder {
    fn init<M: ConvexCellMarker>(cell: &ConvexCell<M>) -> Self {
        Self { cell_idx: cell.idx, gen: cell.loc, tets: vec![], finalized: false }
    }
    fn collect(&mut self, v0: DVec3, v1: DVec3, v2: DVec3, gen: DVec3) {
        self.tets.push([v0, v1, v2, gen]);
    }
    fn finalize(mut self) -> Self {
        self.finalized = true;
        self
    }
}

/// Per-cell payload handed in through the `*_with_data` entry points:
/// (index the caller believes this datum belongs to, arbitrary payload).
pub type Payload = (usize, u64);

/// Cell integral with per-cell data: remembers the data it was handed.
#[derive(Default, Clone, Debug)]
pub struct TetRecorderData {
    pub cell_idx: usize,
    pub gen: DVec3,
    pub data: Payload,
    pub tets: Vec<[DVec3; 4]>,
    pub finalized: bool,
}

impl CellIntegralWithData for TetRecorderData {
    type Data = Payload;
    fn init_with_data<M: ConvexCellMarker>(cell: &ConvexCell<M>, data: Payload) -> Self {
        Self { cell_idx: cell.idx, gen: cell.loc, data, tets: vec![], finalized: false }
    }
    fn collect(&mut self, v0: DVec3, v1: DVec3, v2: DVec3, gen: DVec3) {
        self.tets.push([v0, v1, v2, gen]);
    }
    fn finalize(mut self) -> Self {
        self.finalized = true;
        self
    }
}

/// Records every base triangle fed to a face integral (no data).
#[derive(Default, Clone, Debug)]
pub struct TriRecorder {
    pub cell_idx: usize,
    pub plane_idx: usize,
    pub tris: Vec<[DVec3; 4]>,
    pub finalized: bool,
}

impl FaceIntegral for TriRecorder {
    fn init<M: ConvexCellMarker>(cell: &ConvexCell<M>, clipping_plane_idx: usize) -> Self {
        Self { cell_idx: cell.idx, plane_idx: clipping_plane_idx, tris: vec![], finalized: false }
    }
    fn collect(&mut self, v0: DVec3, v1: DVec3, v2: DVec3, gen: DVec3) {
        self.tris.push([v0, v1, v2, gen]);
    }
    fn finalize(mut self) -> Self {
        self.finalized = true;
        self
    }
}

/// Face integral with per-cell data.
#[derive(Default, Clone, Debug)]
pub struct TriRecorderData {
    pub cell_idx: usize,
    pub plane_idx: usize,
    pub data: Payload,
    pub tris: Vec<[DVec3; 4]>,
    pub finalized: bool,
}

impl FaceIntegralWithData for TriRecorderData {
    type Data = Payload;
    fn init_with_data<M: ConvexCellMarker>(
        cell: &ConvexCell<M>,
        clipping_plane_idx: usize,
        data: Payload,
    ) -> Self {
        Self {
            cell_idx: cell.idx,
            plane_idx: clipping_plane_idx,
            data,
            tris: vec![],
            finalized: false,
        }
    }
    fn collect(&mut self, v0: DVec3, v1: DVec3, v2: DVec3, gen: DVec3) {
        self.tris.push([v0, v1, v2, gen]);
    }
    fn finalize(mut self) -> Self {
        self.finalized = true;
        self
    }
}
