#!/bin/bash
# Build the framework from files on disk only (offline). Run once after a fresh restore.
set -e
cd "$(dirname "$0")"
export CARGO_NET_OFFLINE=true
( cd harness && cargo build --offline --release --bin mvv && cargo build --offline --profile dbg --bin mvv )
./target/harness/release/mvv selftest x
for s in scripts/pre-*.sh; do [ -x "$s" ] && "$s" quick; done
echo "setup done"
