#!/bin/bash
# Build the framework from files on disk only (offline). Run once after a fresh restore.
# Every ./check rebuilds what it needs anyway (no-op when nothing changed); this just pays the
# cold build once: harness (release + debug-assertions), sequential and alternative-backend
# builds of the harness (C09, C11), the downstream crate and the C14 binary (default + sequential).
set -e
cd "$(dirname "$0")"
export CARGO_NET_OFFLINE=true
ROOT="$(pwd)"
if [ -n "${MVV_REPO:-}" ] && [ "$MVV_REPO" != "/repo" ]; then
  sed -i "s#path = \"/repo\"#path = \"$MVV_REPO\"#" harness/Cargo.toml downstream/Cargo.toml c14/Cargo.toml
fi
b() { # crate variant profile args...
  local crate="$1" variant="$2" prof="$3"; shift 3
  ( cd "$ROOT/$crate" && cargo build --offline --profile "$prof" --target-dir "$ROOT/target/$variant" "$@" ) 2>&1 | tail -n 2
}
b harness harness release --bin mvv
b harness harness dbg --bin mvv
./target/harness/release/mvv selftest x
b harness seq release --bin mvv --no-default-features --features ibig &
b harness dashu release --bin mvv --no-default-features --features par,dashu &
wait
b harness malachite release --bin mvv --no-default-features --features par,malachite &
b harness num_bigint release --bin mvv --no-default-features --features par,num_bigint &
wait
b downstream downstream release
b c14 c14 release &
b c14 c14-seq release --no-default-features --features ibig &
wait
echo "setup done"
