//! C13 — integrator and direct routes agree; built-in integrals reproduce stored values.
use crate::case::Case;
use crate::gen::{self, GenOpts, MaskMode};
use crate::obs;
use crate::runner::{CaseStats, PropDef, Tier};
use crate::tol;
use meshless_voronoi::integrals::{AreaCentroidIntegral, VolumeCentroidIntegral};
use meshless_voronoi::Voronoi;
use proptest::strategy::BoxedStrategy;

fn strategy(tier: Tier) -> BoxedStrategy<Case> {
    gen::case_strategy(GenOpts { max_n: tier.pick(300, 1000), big_n_weight: 1, masks: MaskMode::Mixed, max_offset_log2: 12, ..GenOpts::default() })
}

fn bits3(v: glam::DVec3) -> [u64; 3] {
    [v.x.to_bits(), v.y.to_bits(), v.z.to_bits()]
}

pub fn check(c: &Case, cs: &mut CaseStats) -> Result<(), String> {
    gen::classify(c, cs);
    if !gen::is_valid(c) {
        return Err("INFRA: generator produced an invalid case".into());
    }
    let n = c.n();
    let mask = c.mask.as_deref();
    let active: Vec<bool> = c.mask.clone().unwrap_or(vec![true; n]);
    let direct_v = obs::build(c);
    let direct = obs::observe(&direct_v);
    let vi = obs::integrator(c, mask);
    let via = obs::observe(&Voronoi::from(&vi));
    // (1) bitwise the same tessellation
    let (da, db) = (obs::dump(&direct), obs::dump(&via));
    if let Some(p) = obs::first_diff(&da, &db) {
        return Err(format!("Voronoi::from(&integrator) differs from the direct build at dump word {p} (lengths {} / {})", da.len(), db.len()));
    }
    if direct.anchor != via.anchor || direct.width != via.width || direct.dim != via.dim || direct.periodic != via.periodic {
        return Err("Voronoi::from(&integrator): anchor/width/dimensionality/periodic differ from the direct build".into());
    }
    // (2) cell integrals <-> constructed cells in index order
    let ci = vi.compute_cell_integrals::<VolumeCentroidIntegral>();
    let constructed: Vec<usize> = (0..n).filter(|&i| active[i]).collect();
    if ci.len() != constructed.len() {
        return Err(format!("compute_cell_integrals returned {} values for {} constructed cells", ci.len(), constructed.len()));
    }
    for (k, &i) in constructed.iter().enumerate() {
        let cell = &direct.cells[i];
        if ci[k].volume.to_bits() != cell.volume.to_bits() || bits3(ci[k].centroid) != bits3(obs::v3(cell.centroid)) {
            return Err(format!("cell integral #{k} (cell {i}): ({:e}, {:?}) != stored ({:e}, {:?})", ci[k].volume, ci[k].centroid, cell.volume, cell.centroid));
        }
    }
    // (3) symmetric face integrals <-> face list
    let sym = vi.compute_face_integrals_sym::<AreaCentroidIntegral>();
    if sym.len() != direct.faces.len() {
        return Err(format!("compute_face_integrals_sym returned {} faces, the tessellation stores {}", sym.len(), direct.faces.len()));
    }
    for (k, (s, f)) in sym.iter().zip(&direct.faces).enumerate() {
        let same = s.left() == f.left
            && s.right() == f.right
            && s.shift().map(|x| bits3(x)) == f.shift.map(|x| bits3(obs::v3(x)))
            && s.integral().area.to_bits() == f.area.to_bits()
            && bits3(s.integral().centroid) == bits3(obs::v3(f.centroid));
        if !same {
            return Err(format!("symmetric face integral #{k} ({} -> {:?}, shift {:?}, area {:e}) != stored face ({} -> {:?}, shift {:?}, area {:e})", s.left(), s.right(), s.shift(), s.integral().area, f.left, f.right, f.shift, f.area));
        }
    }
    // (4) sym = nonsym minus exactly the faces already reported by a constructed lower-index
    // neighbour without shift, as ordered lists
    let nonsym = vi.compute_face_integrals::<AreaCentroidIntegral>();
    let mut skipped = 0u64;
    let mut it = sym.iter();
    for f in &nonsym {
        let drop = match (f.right(), f.shift()) {
            (Some(j), None) => j < f.left() && active[j],
            _ => false,
        };
        if drop {
            skipped += 1;
            continue;
        }
        match it.next() {
            Some(s) => {
                let same = s.left() == f.left()
                    && s.right() == f.right()
                    && s.shift().map(bits3) == f.shift().map(bits3)
                    && s.integral().area.to_bits() == f.integral().area.to_bits()
                    && bits3(s.integral().centroid) == bits3(f.integral().centroid);
                if !same {
                    return Err(format!("symmetric list is not the non-symmetric list minus lower-index duplicates: at ({} -> {:?}) found ({} -> {:?})", f.left(), f.right(), s.left(), s.right()));
                }
            }
            None => return Err("symmetric face integrals: fewer entries than the non-symmetric list minus lower-index duplicates".into()),
        }
    }
    if it.next().is_some() {
        return Err("symmetric face integrals: more entries than the non-symmetric list minus lower-index duplicates".into());
    }
    cs.count("sym_skipped_faces", skipped);
    // (5) cells with stored face information (3D): same structure, values up to rounding
    if c.dim == 3 {
        let vf = vi.clone().with_faces();
        let w = obs::observe(&Voronoi::from(&vf));
        if w.cells.len() != direct.cells.len() {
            return Err("with_faces: different number of cells".into());
        }
        for i in 0..n {
            let (a, b) = (&direct.cells[i], &w.cells[i]);
            if a.loc != b.loc || a.safety_radius.to_bits() != b.safety_radius.to_bits() {
                return Err(format!("with_faces: cell {i} loc / safety radius differ"));
            }
            if !active[i] {
                continue;
            }
            let cell = vi.get_cell_at(i).unwrap();
            let k = obs::vertex_kappa(cell).into_iter().fold(1., f64::max);
            if k > tol::KAPPA_WELL {
                cs.count("with_faces_cells_skipped_ill_conditioned", 1);
                continue;
            }
            let r = 0.5 * a.safety_radius;
            let tolv = tol::eps_pos(c) * k * 4. * std::f64::consts::PI * r * r + 1e-11 * a.volume.abs();
            if (a.volume - b.volume).abs() > tolv {
                return Err(format!("with_faces: cell {i} volume {:e} vs {:e} without faces (tol {:e})", b.volume, a.volume, tolv));
            }
            cs.max("with_faces_volume_diff_over_tol", (a.volume - b.volume).abs() / tolv);
            cs.count("with_faces_cells_compared", 1);
        }
    }
    let mixed = cs.labels.contains("mask:mixed");
    if (mixed || c.periodic) && skipped > 0 {
        cs.nt();
    }
    Ok(())
}

pub fn def() -> PropDef {
    PropDef {
        id: "C13",
        rule: "cases: all families x masks, dims 1-3, periodic or not, n to 300 (quick) / 1000 (thorough); oracle (differential, bitwise): canonical dump of Voronoi::from(&VoronoiIntegrator::build(args)) == dump of Voronoi::build(_partial)(args); compute_cell_integrals::<VolumeCentroidIntegral> == (volume, centroid) of constructed cells in index order; compute_face_integrals_sym::<AreaCentroidIntegral> == faces() entry by entry; sym == nonsym minus exactly the (i -> j, no shift) entries with j < i and j constructed, as ordered lists; 3D cells with face information: same cells, volumes up to rounding (well-conditioned cells). non-trivial: (mask mixed or periodic) and the symmetric variant skipped >= 1 face; distinct by case hash.",
        strategy,
        check,
        cases: |t| t.pick(4000, 200_000),
        profiles: &["release"],
        required: &["mask:mixed", "periodic", "dim1", "dim2", "dim3"],
        fixed: None,
        assumptions: &["valid input as in C01"],
    }
}
