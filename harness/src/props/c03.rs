//! C03 — faces are reciprocal: both sides see the same face, stored once.
use crate::case::Case;
use crate::cellinfo::{cell_infos, face_perimeter_bound};
use crate::gen::{self, GenOpts, MaskMode};
use crate::obs::{self, PlaneFace};
use crate::runner::{CaseStats, PropDef, Tier};
use crate::tol;
use glam::DVec3;
use proptest::strategy::BoxedStrategy;
use std::collections::BTreeMap;

fn strategy(tier: Tier) -> BoxedStrategy<Case> {
    gen::case_strategy(GenOpts { max_n: tier.pick(600, 1500), big_n_weight: 1, masks: MaskMode::Mixed, max_offset_log2: 20, ..GenOpts::default() })
}

#[derive(Clone, Debug)]
struct SideFace {
    area: f64,
    centroid: DVec3,
    normal_in: DVec3,
    shift: Option<DVec3>,
}

fn bits(v: DVec3) -> [u64; 3] {
    [v.x.to_bits(), v.y.to_bits(), v.z.to_bits()]
}

pub fn check(c: &Case, cs: &mut CaseStats) -> Result<(), String> {
    gen::classify(c, cs);
    if !gen::is_valid(c) {
        return Err("INFRA: generator produced an invalid case".into());
    }
    let n = c.n();
    let active: Vec<bool> = c.mask.clone().unwrap_or(vec![true; n]);
    let vi = obs::integrator(c, c.mask.as_deref());
    let v = obs::observe(&obs::build(c));
    if crate::refcmp::unresolvable(c) {
        cs.label("unresolvable-arrangement");
        return Ok(());
    }
    let infos = cell_infos(c, &vi);
    let thr = tol::face_threshold(c);
    let d = c.d();
    // every face as seen from every constructed cell: (i, j, shift bits) -> face
    let mut sides: BTreeMap<(usize, usize, [u64; 3]), SideFace> = BTreeMap::new();
    for i in 0..n {
        let cell = match vi.get_cell_at(i) {
            Some(c) => c,
            None => continue,
        };
        for f in cell.compute_face_integrals::<(), PlaneFace>(()) {
            let pf = f.integral();
            let hs = &cell.clipping_planes[pf.plane_idx];
            if let Some(j) = hs.right_idx {
                let s = hs.shift.unwrap_or(DVec3::ZERO);
                // +0.0 and -0.0 shifts denote the same lattice vector
                let key = (i, j, bits(s + DVec3::ZERO));
                if sides.insert(key, SideFace { area: pf.area, centroid: pf.centroid, normal_in: hs.plane.n, shift: hs.shift }).is_some() {
                    return Err(format!("cell {i} has two faces towards generator {j} with shift {:?}", hs.shift));
                }
            }
        }
    }
    let mut compared = 0u64;
    let mut periodic_pairs = 0u64;
    let mut self_pairs = 0u64;
    let lowdim_bad = tol::lowdim_area_unreliable(c);
    if lowdim_bad {
        cs.label("known-finding:lowdim-large-coordinates");
    }
    let phi = |i: usize| ((i as f64 * 0.618_033_988_749_895).fract() - 0.5) * 2.;
    let mut flux = 0.;
    let mut flux_tol = 0.;
    for (&(i, j, sb), f) in &sides {
        if !active[j] {
            continue;
        }
        let s = DVec3::new(f64::from_bits(sb[0]), f64::from_bits(sb[1]), f64::from_bits(sb[2]));
        let (ii, ij) = (infos[i].as_ref().unwrap(), infos[j].as_ref().unwrap());
        let pos = ii.pos + ij.pos;
        let tola = pos * face_perimeter_bound(d, ii.r.min(ij.r)) + 1e-11 * f.area.abs();
        let well = ii.well && ij.well && !lowdim_bad;
        let back = sides.get(&(j, i, bits(-s + DVec3::ZERO)));
        if !well {
            cs.count("pairs_skipped_ill_conditioned_or_lowdim", 1);
            cs.label("known-finding:ill-conditioned-or-lowdim");
            continue;
        }
        match back {
            None => {
                if f.area > thr + tola {
                    return Err(format!("cell {i} has a face of area {:e} towards generator {j} with shift {:?}, but cell {j} has no face towards {i} with the opposite shift (threshold {:e}, tol {:e})", f.area, f.shift, thr, tola));
                }
            }
            Some(b) => {
                if f.area.max(b.area) <= thr {
                    continue;
                }
                let da = (f.area - b.area).abs();
                cs.max("reciprocal_area_diff_over_tol", da / tola);
                if da > tola {
                    return Err(format!("face between {i} and {j} (shift {:?}): area {:e} seen from {i}, {:e} seen from {j} (diff {:e} > tol {:e})", f.shift, f.area, b.area, da, tola));
                }
                // (shifted) centroid
                if f.area > thr && tola < 0.125 * f.area {
                    let tolc = 2. * face_perimeter_bound(d, ii.r.min(ij.r)) * tola / f.area + pos;
                    let dc = (f.centroid - s).distance(b.centroid);
                    cs.max("reciprocal_centroid_diff_over_tol", dc / tolc);
                    if dc > tolc {
                        return Err(format!("face between {i} and {j} (shift {:?}): centroid {:?} seen from {i} minus shift vs {:?} seen from {j} (diff {:e} > tol {:e})", f.shift, f.centroid, b.centroid, dc, tolc));
                    }
                }
                // opposite normals
                let dist = (DVec3::from_array(c.eff_gens()[i]) - DVec3::from_array(c.eff_gens()[j]) - s).length();
                let toln = 1e-14 + 16. * tol::U * c.scale_l() / dist;
                if (f.normal_in + b.normal_in).length() > toln {
                    return Err(format!("face between {i} and {j}: normals {:?} and {:?} are not opposite (tol {:e})", f.normal_in, b.normal_in, toln));
                }
                compared += 1;
                if sb != [0, 0, 0] && i <= j {
                    periodic_pairs += 1;
                    if i == j {
                        self_pairs += 1;
                    }
                }
                if i < j || (i == j && sb > bits(-s + DVec3::ZERO)) {
                    flux += (f.area - b.area) * (phi(i) - phi(j));
                    flux_tol += tola * (phi(i) - phi(j)).abs();
                }
            }
        }
    }
    // compact structure: every unshifted pair of constructed cells (above threshold) is stored
    // exactly once; periodic faces come as reciprocal pairs
    let mut stored: BTreeMap<(usize, usize, [u64; 3]), usize> = BTreeMap::new();
    for f in &v.faces {
        if let Some(r) = f.right {
            let s = f.shift.map_or(DVec3::ZERO, |s| DVec3::from_array(s));
            *stored.entry((f.left, r, bits(s + DVec3::ZERO))).or_insert(0) += 1;
        }
    }
    for (&(i, j, sb), f) in &sides {
        if !active[j] || f.area <= thr {
            continue;
        }
        let (ii, ij) = (infos[i].as_ref().unwrap(), infos[j].as_ref().unwrap());
        if !(ii.well && ij.well) || lowdim_bad {
            continue;
        }
        let tola = (ii.pos + ij.pos) * face_perimeter_bound(d, ii.r.min(ij.r));
        if f.area <= thr + tola {
            continue;
        }
        if sb == [0, 0, 0] {
            let cnt = stored.get(&(i, j, sb)).copied().unwrap_or(0) + stored.get(&(j, i, sb)).copied().unwrap_or(0);
            if cnt != 1 {
                return Err(format!("the face between constructed cells {i} and {j} (area {:e}) is stored {cnt} times in the compact tessellation", f.area));
            }
        } else {
            let s = DVec3::new(f64::from_bits(sb[0]), f64::from_bits(sb[1]), f64::from_bits(sb[2]));
            let a = stored.get(&(i, j, sb)).copied().unwrap_or(0);
            let b = stored.get(&(j, i, bits(-s + DVec3::ZERO))).copied().unwrap_or(0);
            let want = if i == j && sb == bits(-s + DVec3::ZERO) { 2 } else { 1 };
            let _ = want;
            if a != 1 || b != 1 {
                return Err(format!("periodic face {i} -> {j} shift {:?} (area {:e}): stored {a} times, its reciprocal {b} times", s, f.area));
            }
        }
    }
    if flux.abs() > flux_tol + 1e-300 {
        return Err(format!("antisymmetric flux over all reciprocal pairs does not cancel: {:e} > tol {:e}", flux, flux_tol));
    }
    cs.count("reciprocal_pairs_compared", compared);
    cs.count("periodic_pairs", periodic_pairs);
    cs.count("self_image_pairs", self_pairs);
    if self_pairs > 0 {
        cs.label("self-image-pair");
    }
    let mixed = cs.labels.contains("mask:mixed");
    if compared > 0 && (periodic_pairs > 0 || mixed || n >= 3) {
        cs.nt();
    }
    Ok(())
}

pub fn def() -> PropDef {
    PropDef {
        id: "C03",
        rule: "cases: all families x masks, dims 1-3, periodic or not, n to 600 (quick) / 1500 (thorough); oracle: all-pairs join of the non-symmetric face integrals of all constructed cells: for every face (i -> j, shift s) above the threshold with j constructed there is exactly one (j -> i, -s) (shift compared exactly), areas and shifted centroids agree within eps_pos*kappa + snapping tolerance, plane normals opposite; compact structure: every unshifted constructed pair stored exactly once, periodic faces stored as reciprocal pairs; antisymmetric flux over all pairs cancels. non-trivial: >= 1 pair compared and (periodic pair present or mask mixed or n >= 3); distinct by case hash.",
        strategy,
        check,
        cases: |t| t.pick(4000, 150_000),
        profiles: &["release"],
        required: &["periodic", "mask:mixed", "self-image-pair", "dim1", "dim2", "dim3"],
        fixed: None,
        assumptions: &["valid input as in C01", "pairs involving an ill-conditioned cell, 1D/2D cases at coordinates > 1e10 and unresolvable arrangements are exempt (known findings)"],
    }
}
