//! C01 — every cell is the nearest-generator region of its generator.
use crate::case::Case;
use crate::gen::{self, GenOpts};
use crate::obs;
use crate::refcmp::{compare_cell, ref_bundle, unresolvable, VAR_FACTOR};
use crate::refmodel::{sites_rel, Tag};
use crate::runner::{CaseStats, PropDef, Tier};
use crate::tol;
use proptest::strategy::BoxedStrategy;

fn strategy(tier: Tier) -> BoxedStrategy<Case> {
    use proptest::prelude::*;
    let reference = gen::case_strategy(GenOpts { max_n: 40, ..GenOpts::default() });
    // metamorphic stream (no reference model, so larger inputs): aux_i = [1, relabelling seed,
    // reflection bits, axis permutation, power of two]
    let meta = (gen::case_strategy(GenOpts { max_n: tier.pick(300, 1200), big_n_weight: 3, ..GenOpts::default() }), any::<u32>(), 0u32..8, 0u32..6, -40i32..=40, 0u8..4)
        .prop_map(|(mut c, seed, flips, axes, k, which)| {
            // a quarter of the cases apply a single kind of transform (easier to read when it
            // fails), the rest combine all four
            let (seed, flips, axes, k) = match which {
                0 => match seed % 4 {
                    0 => (seed | 3, 0, 0, 0),
                    1 => (0, flips.max(1), 0, 0),
                    2 => (0, 0, axes.max(1), 0),
                    _ => (0, 0, 0, if k == 0 { 7 } else { k }),
                },
                _ => (seed, flips, axes, k),
            };
            c.aux_i = vec![1, seed as i64, flips as i64, axes as i64, k as i64];
            c
        });
    prop_oneof![3 => reference, 1 => meta].boxed()
}

/// Metamorphic part of C01 (see `meta.rs`): relabelling, reflection, axis permutation, scaling.
fn metamorphic(c: &Case, cs: &mut CaseStats) -> Result<(), String> {
    let t = crate::meta::Transform::from_codes(c, c.aux_i[1] as u64, c.aux_i[2] as u32, c.aux_i[3] as u32, c.aux_i[4] as i32);
    cs.label("metamorphic");
    if !t.perm.iter().enumerate().all(|(i, p)| i == *p) {
        cs.label("meta:relabel");
    }
    if t.flip.iter().any(|f| *f) {
        cs.label("meta:reflect");
    }
    if t.axes != [0, 1, 2] {
        cs.label("meta:axes");
    }
    if t.scale_pow != 0 {
        cs.label("meta:scale");
    }
    if c.n() > 40 {
        cs.label("meta:n>40");
    }
    let compared = crate::meta::compare(c, &t, cs)?;
    if c.n() >= 3 && compared > 0 && !t.is_identity() {
        cs.nt();
    }
    Ok(())
}

pub fn check(c: &Case, cs: &mut CaseStats) -> Result<(), String> {
    gen::classify(c, cs);
    if !gen::is_valid(c) {
        return Err("INFRA: generator produced an invalid case".into());
    }
    if c.aux_i.first() == Some(&1) && c.aux_i.len() >= 5 {
        return metamorphic(c, cs);
    }
    let n = c.n();
    let vi = obs::integrator(c, None);
    let v = obs::build_full(c);
    if unresolvable(c) {
        // ill-posed input (see refcmp::unresolvable): only construction itself is exercised
        cs.label("unresolvable-arrangement");
        return Ok(());
    }
    let mut any_nonwall = false;
    let mut early = false;
    for i in 0..n {
        let cell = vi.get_cell_at(i).ok_or_else(|| format!("cell {i} missing in a full build"))?;
        let b = ref_bundle(c, i);
        any_nonwall |= compare_cell(c, cell, &b, cs)?.has_nonwall_face;
        let r = &b.base;
        // the compact route must report the same cell measure (bitwise agreement of the two
        // routes is C13's business)
        let vc = &v.cells()[i];
        let kmax = obs::vertex_kappa(cell).into_iter().fold(1., f64::max).min(tol::KAPPA_WELL);
        let tolv = VAR_FACTOR * b.var_volume + tol::eps_pos(c) * kmax * 4. * std::f64::consts::PI * b.r3 * b.r3 + 1e-11 * r.volume;
        if (vc.volume() - r.volume).abs() > tolv {
            return Err(format!("Voronoi::build cell {i}: volume {:e} vs brute force {:e} (tol {:e})", vc.volume(), r.volume, tolv));
        }
        // the library's own built-in face integral and the compact face list must report what the
        // harness' recorder (compared with the reference above) saw for the same planes
        {
            use crate::obs::PlaneFace;
            use meshless_voronoi::integrals::AreaCentroidIntegral;
            let mine = cell.compute_face_integrals::<(), PlaneFace>(());
            let lib = cell.compute_face_integrals::<(), AreaCentroidIntegral>(());
            if mine.len() != lib.len() {
                return Err(format!("cell {i}: AreaCentroidIntegral yields {} faces, a recording face integral {}", lib.len(), mine.len()));
            }
            for (m, l) in mine.iter().zip(&lib) {
                let (a, b) = (m.integral(), l.integral());
                let scale = a.area.abs().max(1e-300);
                if m.right() != l.right() || (a.area - b.area).abs() > 1e-12 * scale || (a.area > 0. && a.centroid.distance(b.centroid) > 1e-12 * (a.centroid.length() + 1e-300)) {
                    return Err(format!("cell {i}: built-in AreaCentroidIntegral (area {:e}, centroid {:?}) differs from the signed-triangle sums of the same face (area {:e}, centroid {:?})", b.area, b.centroid, a.area, a.centroid));
                }
            }
            for &k in &vc.face_indices(&v).to_vec() {
                let f = &v.faces()[k];
                if f.left() != i {
                    continue;
                }
                if let Some(m) = mine.iter().find(|m| m.right() == f.right() && m.shift().map(|s| s.to_array()) == f.shift().map(|s| s.to_array()) && (f.right().is_some() || -cell.clipping_planes[m.integral().plane_idx].normal() == f.normal())) {
                    let a = m.integral();
                    let scale = a.area.abs().max(1e-300);
                    if (a.area - f.area()).abs() > 1e-12 * scale || (a.area > 0. && a.centroid.distance(f.centroid()) > 1e-12 * (a.centroid.length() + 1e-300)) {
                        return Err(format!("cell {i}: stored face towards {:?} has (area {:e}, centroid {:?}), the signed-triangle sums of that face give (area {:e}, centroid {:?})", f.right(), f.area(), f.centroid(), a.area, a.centroid));
                    }
                    cs.count("compact_faces_cross_checked", 1);
                }
            }
        }
        // was the security radius termination exercised? (some site beyond the radius)
        let sr = meshless_voronoi::verif_hooks::cell_safety_radius(cell);
        let s1 = sites_rel(c, i, 1);
        if s1.iter().any(|(_, _, rel)| rel.length() > sr) {
            early = true;
        }
        // sub-counter: a far neighbour (rank by distance >= 8) owns a non-negligible face
        let mut d: Vec<f64> = s1.iter().map(|x| x.2.length()).collect();
        d.sort_by(|a, b| a.partial_cmp(b).unwrap());
        if d.len() > 8 {
            let thr = tol::face_threshold(c);
            for f in &r.faces {
                if let Tag::Site(j, s) = f.tag {
                    if f.area > thr {
                        if let Some(x) = s1.iter().find(|x| x.0 == j && x.1 == s) {
                            if x.2.length() > d[7] {
                                cs.label("far-neighbour-face");
                            }
                        }
                    }
                }
            }
        }
    }
    cs.count("cells", n as u64);
    if early {
        cs.label("early-termination");
    }
    if n >= 3 && any_nonwall && early {
        cs.nt();
    }
    Ok(())
}

pub fn def() -> PropDef {
    PropDef {
        id: "C01",
        rule: "cases: all point-set families (uniform, clusters, exact/perturbed lattices, wall points, co-spherical, coplanar, dyadic, shared-coordinate, n=1/2), dims 1-3, periodic or not, n <= 40, aspect to 2^14, offsets to 2^30; oracle: brute-force cell (box clipped by the bisector of every site, 5^d images when periodic, no search structure, no security radius, local coordinates), compared per cell on volume, centroid, the complete face map keyed by (neighbour | wall, integer shift) -> area, centroid in both directions (missing / spurious above the 1e-9 threshold), every library vertex nearer to its generator than to any site by direct distance comparison, every reference vertex inside all library half spaces; tolerance per quantity = 8 x its measured variation when all sites are perturbed by the library's input rounding (3 replicas) + 2^14 u L kappa floor. non-trivial: n >= 3, some cell has a non-negligible non-wall face and the security-radius termination really stopped before some site for at least one cell; distinct by case hash. Second stream (1 case in 4, n to 300 quick / 1200 thorough, no reference model): metamorphic relations that follow from the definition - the tessellation of the relabelled (identity / reversal / pseudo-random shuffle), reflected (any subset of the active axes, about the centre of the box), axis-permuted and power-of-two-scaled (2^-40..2^40, exact) input is built as well and every cell is compared through the transform: volume, centroid, and the face map keyed by (neighbour, integer period shift | wall) with areas in both directions, tolerances from the conditioning of both builds (cellinfo); non-trivial there: n >= 3, a non-identity transform and >= 1 non-wall face compared.",
        strategy,
        check,
        cases: |t| t.pick(5400, 200_000),
        profiles: &["release"],
        required: &["dim1", "dim2", "dim3", "periodic", "reflective", "early-termination", "far-neighbour-face", "aspect>=64", "metamorphic", "meta:relabel", "meta:reflect", "meta:axes", "meta:scale", "meta:n>40"],
        fixed: None,
        assumptions: &["valid input (closed box, separation >= 2^-44 * coordinate scale)", "faces/vertices of cells that contain a vertex whose three plane normals are coplanar to 1e-6 are exempt (known finding 'ill-conditioned'); their volume and centroid are still compared", "the reference model is validated by `mvv selftest` (Monte-Carlo membership against direct distance comparison)"],
    }
}
