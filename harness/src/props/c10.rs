//! C10 — the exact in-sphere predicate returns the true sign on the integer grid; the map from
//! positions to the grid is monotone and stays inside [0, 2^52).
use crate::case::Case;
use crate::exact::{insphere_sign, inside_sphere, orient_sign};
use crate::gen::{self, GenOpts};
use crate::runner::{CaseStats, Failure, PropDef, Stats, Tier};
use glam::DVec3;
use meshless_voronoi::verif_hooks as hooks;
use proptest::prelude::*;
use proptest::strategy::BoxedStrategy;

const MAXC: i64 = (1i64 << 52) - 1;

type Tuple = [[i64; 3]; 5];

fn to_tuple(v: &[i64]) -> Tuple {
    let mut t = [[0i64; 3]; 5];
    for p in 0..5 {
        for k in 0..3 {
            t[p][k] = v[p * 3 + k].clamp(0, MAXC);
        }
    }
    t
}

/// integer vectors of equal norm^2 (9, 25, 49, 81): exactly co-spherical around any centre
const SPH: &[&[[i64; 3]]] = &[
    &[[1, 2, 2], [2, 1, 2], [2, 2, 1], [-1, 2, 2], [2, -1, 2], [2, 2, -1], [0, 0, 3], [0, 3, 0], [3, 0, 0], [-2, -2, 1], [1, -2, -2], [0, 0, -3], [-3, 0, 0], [-2, 1, -2]],
    &[[3, 4, 0], [4, 3, 0], [5, 0, 0], [0, 5, 0], [-3, 4, 0], [3, -4, 0], [-4, -3, 0], [0, -5, 0], [-5, 0, 0], [0, 3, 4], [0, 4, 3], [3, 0, 4], [4, 0, -3], [0, 0, 5]],
    &[[2, 3, 6], [3, 6, 2], [6, 2, 3], [7, 0, 0], [0, 7, 0], [0, 0, 7], [-2, 3, 6], [6, -3, 2], [-6, 2, 3], [2, -3, -6], [3, 2, 6], [-7, 0, 0], [6, 3, -2], [-3, -6, 2]],
    &[[1, 4, 8], [4, 4, 7], [9, 0, 0], [0, 9, 0], [8, 1, 4], [-4, 7, 4], [7, 4, -4], [3, 6, 6], [6, 6, 3], [-6, 3, 6], [0, 0, -9], [4, 8, 1], [-1, -4, -8], [6, -6, 3]],
];

pub fn tuple_strategy() -> BoxedStrategy<Vec<i64>> {
    let random = proptest::collection::vec(0i64..=MAXC, 15);
    let small = (proptest::collection::vec(0i64..4, 15), prop_oneof![Just(0i64), Just(MAXC - 3), 0i64..MAXC - 4]).prop_map(|(v, off)| v.into_iter().map(|x| x + off).collect::<Vec<_>>());
    // co-spherical: centre + 2^k * vector, optionally +-1 on one coordinate of one point
    let cosph = (0usize..4, proptest::collection::vec(0usize..14, 5), 0u32..48, [0i64..MAXC, 0i64..MAXC, 0i64..MAXC], 0usize..16, -1i64..=1)
        .prop_map(|(tab, idx, k, centre, which, delta)| {
            let scale = 1i64 << k;
            let reach = 9 * scale;
            let mut out = vec![];
            for p in 0..5 {
                let v = SPH[tab][idx[p]];
                for a in 0..3 {
                    let c = centre[a].clamp(reach, MAXC - reach);
                    out.push(c + v[a] * scale);
                }
            }
            if which < 15 {
                out[which] = (out[which] + delta).clamp(0, MAXC);
            }
            out
        });
    // coplanar / degenerate tetrahedron: d in the plane of a, b, c (integer combination)
    let coplanar = (proptest::collection::vec(0i64..(1 << 20), 9), -3i64..4, -3i64..4, proptest::collection::vec(0i64..MAXC, 3), 0i64..MAXC - (1 << 24)).prop_map(|(abc, s, t, v, off)| {
        let a = [abc[0], abc[1], abc[2]];
        let b = [abc[3], abc[4], abc[5]];
        let c = [abc[6], abc[7], abc[8]];
        let mut out = vec![];
        let base = off.max(1 << 23);
        for p in [a, b, c] {
            for k in 0..3 {
                out.push(base + p[k]);
            }
        }
        for k in 0..3 {
            out.push((base + a[k] + s * (b[k] - a[k]) + t * (c[k] - a[k])).clamp(0, MAXC));
        }
        out.extend(v);
        out
    });
    // repeated points
    let repeated = (proptest::collection::vec(0i64..=MAXC, 15), 0usize..5, 0usize..5).prop_map(|(mut v, i, j)| {
        for k in 0..3 {
            v[i * 3 + k] = v[j * 3 + k];
        }
        v
    });
    prop_oneof![3 => random, 2 => small, 4 => cosph, 1 => coplanar, 1 => repeated].boxed()
}

fn strategy(_tier: Tier) -> BoxedStrategy<Case> {
    let base = gen::case_strategy(GenOpts { max_n: 12, ..GenOpts::default() });
    (base, tuple_strategy(), proptest::collection::vec(0.0f64..1.0, 12))
        .prop_map(|(mut c, t, extra)| {
            c.aux_i = t;
            c.aux_f = extra;
            c
        })
        .boxed()
}

pub fn check_tuple(t: &Tuple, cs: &mut CaseStats) -> Result<(), String> {
    let [a, b, c, d, v] = t;
    let lib = hooks::insphere_exact(a, b, c, d, v);
    if !(lib == -1. || lib == 0. || lib == 1.) {
        return Err(format!("in_sphere_test_exact returned {lib} (not -1, 0 or 1) for {:?}", t));
    }
    let want = insphere_sign(a, b, c, d, v);
    if lib as i32 != want {
        return Err(format!("in_sphere_test_exact{:?} = {lib}, the exact determinant has sign {want}", t));
    }
    let o = orient_sign(a, b, c, d);
    if let Some(g) = inside_sphere(a, b, c, d, v) {
        // for a positively oriented tetrahedron: negative iff strictly inside, zero iff on
        let expect = g * o;
        if lib as i32 != expect {
            return Err(format!("in_sphere_test_exact{:?} = {lib}, but the query point is {} the circumsphere of a tetrahedron of orientation {o}", t, ["inside", "on", "outside"][(g + 1) as usize]));
        }
        cs.count("tuples_with_geometric_oracle", 1);
    }
    if want == 0 {
        cs.count("tuples_det_zero", 1);
    }
    cs.count("tuples", 1);
    Ok(())
}

/// every class of position the algorithm can query for generator g
fn query_positions(c: &Case) -> Vec<DVec3> {
    let gens = c.eff_gens();
    let (a, w) = (c.eff_anchor(), c.eff_width());
    let d = c.d();
    let mut out = vec![];
    for g in &gens {
        let g = DVec3::from_array(*g);
        out.push(g);
        // neighbour images (any generator + any lattice shift)
        if c.periodic {
            let r = |ax: usize| if ax < d { -1..=1 } else { 0..=0 };
            for sx in r(0) {
                for sy in r(1) {
                    for sz in r(2) {
                        out.push(g + DVec3::new(sx as f64 * w[0], sy as f64 * w[1], sz as f64 * w[2]));
                    }
                }
            }
        }
        // mirror images through the six walls of the initial cell
        for ax in 0..3 {
            let e = if c.periodic && ax < d { 1. } else { 0. };
            let lo = a[ax] - e * w[ax];
            let hi = a[ax] + (1. + e) * w[ax];
            for wall in [lo, hi] {
                let mut m = g;
                // same arithmetic as HalfSpace::right_loc: 2 * projected - loc
                let projected = wall;
                m[ax] = 2. * projected - g[ax];
                out.push(m);
            }
        }
    }
    out
}

pub fn check(c: &Case, cs: &mut CaseStats) -> Result<(), String> {
    gen::classify(c, cs);
    if !gen::is_valid(c) {
        return Err("INFRA: generator produced an invalid case".into());
    }
    // --- the predicate
    if c.aux_i.len() >= 15 {
        let t = to_tuple(&c.aux_i);
        check_tuple(&t, cs)?;
        if insphere_sign(&t[0], &t[1], &t[2], &t[3], &t[4]) == 0 {
            cs.label("det-zero");
            cs.nt();
        }
        // all orderings of the first four points flip the sign with the permutation parity
        let base = hooks::insphere_exact(&t[0], &t[1], &t[2], &t[3], &t[4]);
        let swapped = hooks::insphere_exact(&t[0], &t[2], &t[1], &t[3], &t[4]);
        if swapped != -base {
            return Err(format!("swapping two points of the tetrahedron does not flip the sign: {base} -> {swapped} for {:?}", t));
        }
    }
    // --- the grid map
    let (a, w) = (DVec3::from_array(c.eff_anchor()), DVec3::from_array(c.eff_width()));
    let grid = hooks::Grid::new(a, w, c.periodic, c.dimensionality());
    let mut pos = query_positions(c);
    // neighbours one ulp apart and a few interior points per axis
    let extra: Vec<DVec3> = pos
        .iter()
        .take(8)
        .flat_map(|p| {
            let up = DVec3::new(f64::from_bits(p.x.to_bits().wrapping_add(1)), p.y, p.z);
            [up]
        })
        .filter(|p| p.is_finite())
        .collect();
    let _ = extra;
    let ea = c.eff_anchor();
    let ew = c.eff_width();
    for (k, t) in c.aux_f.chunks(3).enumerate() {
        if t.len() == 3 {
            let p = DVec3::new(ea[0] + t[0] * ew[0], ea[1] + t[1] * ew[1], ea[2] + t[2] * ew[2]);
            let p = DVec3::new(p.x.clamp(ea[0], ea[0] + ew[0]), p.y.clamp(ea[1], ea[1] + ew[1]), p.z.clamp(ea[2], ea[2] + ew[2]));
            if k % 2 == 0 {
                pos.push(p);
            }
        }
    }
    let mut il: Vec<(DVec3, [i64; 3])> = vec![];
    for p in &pos {
        let i = hooks::Grid::iloc(&grid, *p);
        for ax in 0..3 {
            if !(0..=MAXC).contains(&i[ax]) {
                return Err(format!("iloc({:?}) = {:?}: component {ax} outside [0, 2^52)", p, i));
            }
        }
        il.push((*p, i));
    }
    cs.count("positions", il.len() as u64);
    for ax in 0..3 {
        let mut s: Vec<(f64, i64)> = il.iter().map(|(p, i)| (p[ax], i[ax])).collect();
        s.sort_by(|x, y| x.0.partial_cmp(&y.0).unwrap());
        for wnd in s.windows(2) {
            if wnd[0].0 <= wnd[1].0 && wnd[0].1 > wnd[1].1 {
                return Err(format!("iloc is not monotone along axis {ax}: x = {} -> {} but x = {} -> {}", wnd[0].0, wnd[0].1, wnd[1].0, wnd[1].1));
            }
            if wnd[0].0 == wnd[1].0 && wnd[0].1 != wnd[1].1 {
                return Err(format!("iloc maps equal coordinates {} to different grid values {} / {}", wnd[0].0, wnd[0].1, wnd[1].1));
            }
        }
    }
    if cs.labels.contains("gen-on-wall") {
        cs.label("position-on-domain-extreme");
        cs.nt();
    }
    Ok(())
}

/// exhaustive enumeration of all 5-tuples of a small grid at several offsets
fn fixed(tier: Tier, stats: &mut Stats) -> Result<(), Failure> {
    let side: i64 = tier.pick(2, 3);
    let offsets: Vec<i64> = tier.pick(vec![0, MAXC - 1, 1 << 40], vec![0, MAXC - 2]);
    let pts: Vec<[i64; 3]> = (0..side.pow(3)).map(|i| [i % side, (i / side) % side, i / (side * side)]).collect();
    let np = pts.len();
    let mut cs = CaseStats::default();
    let mut count = 0u64;
    for &off in &offsets {
        let p: Vec<[i64; 3]> = pts.iter().map(|q| [q[0] + off, q[1] + off, q[2] + off]).collect();
        let mut idx = [0usize; 5];
        loop {
            let t: Tuple = [p[idx[0]], p[idx[1]], p[idx[2]], p[idx[3]], p[idx[4]]];
            if let Err(m) = check_tuple(&t, &mut cs) {
                let mut c = Case::default();
                c.aux_i = t.iter().flat_map(|q| q.iter().copied()).collect();
                c.gens = vec![[0.5; 3]];
                return Err(Failure { message: m, case: Some(c) });
            }
            count += 1;
            let mut k = 0;
            loop {
                idx[k] += 1;
                if idx[k] < np {
                    break;
                }
                idx[k] = 0;
                k += 1;
                if k == 5 {
                    break;
                }
            }
            if k == 5 {
                break;
            }
        }
    }
    cs.label("exhaustive-small-grid");
    cs.nontrivial = false;
    let zeros = cs.counters.get("tuples_det_zero").copied().unwrap_or(0);
    stats.absorb(0xE0, cs, Some(serde_json::json!({"exhaustive": format!("all {}^5 5-tuples of the {side}x{side}x{side} grid at offsets {:?}", np, offsets), "tuples": count, "with_zero_determinant": zeros})));
    stats.evaluations += count - 1;
    stats.exhaustive = true;
    Ok(())
}

pub fn def() -> PropDef {
    PropDef {
        id: "C10",
        rule: "predicate: (a) EXHAUSTIVE all 5-tuples of the 2x2x2 grid (quick: 8^5 at offsets 0, 2^52-2, 2^40) / 3x3x3 grid (thorough: 27^5 at offsets 0 and 2^52-3); (b) uniform over [0, 2^52)^15; (c) adversarial: exactly co-spherical quintuples (integer vectors of equal norm scaled by 2^k, k < 48, around random centres) and their +-1 single-coordinate perturbations, coplanar tetrahedra, repeated points, small grids at large offsets; oracle: sign of the 4x4 lifted determinant by Bareiss elimination over num-bigint (independent formulation), plus the geometric reading via the rational circumcentre (negative iff strictly inside for positive orientation, zero iff on), antisymmetry under a swap. grid map: boxes of all shapes/dims/periodic; positions = generators in the closed box (incl. extremes), all 3^d periodic images, mirror images through the six (tripled) walls; oracle: every component in [0, 2^52), monotone per axis (run in release AND debug-assertion builds). non-trivial: determinant exactly zero, or a generator on a wall (position at an extreme of the domain); distinct by case hash.",
        strategy,
        check,
        cases: |t| t.pick(40_000, 2_000_000),
        profiles: &["release", "dbg"],
        required: &["det-zero", "position-on-domain-extreme", "exhaustive-small-grid", "periodic", "dim1", "dim2"],
        fixed: Some(fixed),
        assumptions: &["the harness' num-bigint arithmetic", "positions the algorithm can query were enumerated from convex_cell.rs / half_space.rs: generator, neighbour + shift, mirror image of the generator through each wall of the initial cell"],
    }
}
