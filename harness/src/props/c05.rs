//! C05 — construction is total and robust on boundary and degenerate inputs.
use crate::case::Case;
use crate::gen::{self, GenOpts, MaskMode, DEGENERATE_FAMS};
use crate::obs;
use crate::runner::{CaseStats, PropDef, Tier};
use meshless_voronoi::integrals::{AreaCentroidIntegral, VolumeCentroidIntegral};
use meshless_voronoi::verif_hooks as hooks;
use proptest::strategy::BoxedStrategy;

/// Near-exact lattices whose ties are broken at the level of the coordinate rounding: a k^d
/// lattice in a box far from the origin (|anchor| up to 2^30 widths), every coordinate perturbed
/// by s * L * 2^-j with j in 38..54 (L = coordinate scale, u = 2^-53). This is the band in which
/// the floating point filter of the clip test must defer to the exact predicate; a uniform or
/// fixed-magnitude perturbation never lands in it.
fn rounding_level_lattices() -> BoxedStrategy<Case> {
    use proptest::prelude::*;
    (
        (1u8..=3, any::<bool>(), 2usize..=5, any::<bool>(), 0u32..=30, [any::<bool>(), any::<bool>(), any::<bool>()]),
        ([1.0f64..2.0, 1.0f64..2.0, 1.0f64..2.0], -8i32..=8, [0u32..3, 0u32..3, 0u32..3], 38u32..=54),
        proptest::collection::vec([-1.0f64..1.0, -1.0f64..1.0, -1.0f64..1.0], 125),
        (0u8..6, any::<u32>()),
    )
        .prop_map(|((dim, periodic, k, boundary, m, sign), (mant, e, asp, j), pert, (mask_kind, mp))| {
            let d = dim as usize;
            let mut width = [1.; 3];
            let mut anchor = [0.; 3];
            for a in 0..3 {
                width[a] = if m % 3 == 0 { 2f64.powi(e + asp[a] as i32) } else { mant[a] * 2f64.powi(e + asp[a] as i32) };
                anchor[a] = if a < d { (if sign[a] { 1. } else { -1. }) * 2f64.powi(m as i32) * width[a] * if m % 2 == 0 { 1. } else { mant[(a + 1) % 3] } } else { 0. };
            }
            for a in d..3 {
                width[a] = 1.;
            }
            let mut c = Case { dim, periodic, anchor, width, family: "Lr".into(), ..Case::default() };
            let l = c.scale_l();
            let delta = l * 2f64.powi(-(j as i32));
            let npts = k.pow(d as u32);
            for i in 0..npts {
                let mut g = [0.; 3];
                let mut r = i;
                for a in 0..d {
                    let s = r % k;
                    r /= k;
                    let t = if boundary { s as f64 / (k - 1) as f64 } else { (s as f64 + 0.5) / k as f64 };
                    let x = anchor[a] + t * width[a] + pert[i][a] * delta;
                    g[a] = x.max(anchor[a]).min(anchor[a] + width[a]);
                }
                c.gens.push(g);
            }
            gen::repair_distinct(&mut c);
            let n = c.n();
            c.mask = match mask_kind {
                0 => Some((0..n).map(|i| (mp >> (i % 32)) & 1 == 1).collect()),
                1 => Some((0..n).map(|i| i == mp as usize % n).collect()),
                _ => None,
            };
            c
        })
        .boxed()
}

pub fn strategy(_tier: Tier) -> BoxedStrategy<Case> {
    use proptest::prelude::*;
    let base = gen::case_strategy(GenOpts { max_n: 64, big_n_weight: 1, fams: DEGENERATE_FAMS.to_vec(), masks: MaskMode::Mixed, max_offset_log2: 20, ..GenOpts::default() });
    prop_oneof![3 => base, 1 => rounding_level_lattices()].boxed()
}

fn finite3(v: &[f64; 3]) -> bool {
    v.iter().all(|x| x.is_finite())
}

/// Clause 1+2: no panic (panics are caught by the runner and reported with their message),
/// every returned number finite.
pub fn total_and_finite(c: &Case, cs: &mut CaseStats) -> Result<(), String> {
    hooks::reset_exact_calls();
    let v = obs::build(c);
    let o = obs::observe(&v);
    for (i, cell) in o.cells.iter().enumerate() {
        if !(cell.volume.is_finite() && finite3(&cell.centroid) && finite3(&cell.loc) && cell.safety_radius.is_finite()) {
            return Err(format!("Voronoi: cell {i} has a non-finite value: {:?}", cell));
        }
    }
    for (i, f) in o.faces.iter().enumerate() {
        if !(f.area.is_finite() && finite3(&f.centroid) && finite3(&f.normal)) {
            return Err(format!("Voronoi: face {i} has a non-finite value: {:?}", f));
        }
    }
    let vi = obs::integrator(c, c.mask.as_deref());
    for x in vi.compute_cell_integrals::<VolumeCentroidIntegral>() {
        if !(x.volume.is_finite() && x.centroid.is_finite()) {
            return Err("integrator: non-finite cell integral".into());
        }
    }
    for x in vi.compute_face_integrals::<AreaCentroidIntegral>() {
        if !(x.integral().area.is_finite() && x.integral().centroid.is_finite()) {
            return Err("integrator: non-finite face integral".into());
        }
    }
    if c.dim == 3 {
        let vf = vi.with_faces();
        for x in vf.compute_cell_integrals::<VolumeCentroidIntegral>() {
            if !(x.volume.is_finite() && x.centroid.is_finite()) {
                return Err("integrator with faces: non-finite cell integral".into());
            }
        }
        let back = meshless_voronoi::Voronoi::from(&vf);
        if back.cells().len() != c.n() {
            return Err("Voronoi::from(with faces): wrong number of cells".into());
        }
    }
    let (calls, zeros) = hooks::exact_calls();
    cs.count("exact_calls", calls);
    cs.count("exact_zeros", zeros);
    if calls > 0 {
        cs.label("exact-path");
    }
    Ok(())
}

/// Clause 4 ("ties are resolved by exact arithmetic so that the local geometry of different cells
/// is globally consistent"), made executable at the level of the mechanism: the builder's clip
/// sequence of a few cells is replayed through the hooks (`nn_sequence`, `cell_clip`, the same
/// termination rule), and before every clip the decision of the floating point filter for every
/// vertex is compared with the decision of the exact predicate on the snapped generators (hook
/// `clip_decisions`). Wherever the filter claims to know (non-zero), it must remove the vertex iff
/// the exact predicate does: otherwise this cell decides by rounding what its neighbours decide
/// exactly.
pub fn clip_consistency(c: &Case, cs: &mut CaseStats) -> Result<(), String> {
    use glam::DVec3;
    use meshless_voronoi::HalfSpace;
    let n = c.n();
    let (a, w) = (DVec3::from_array(c.eff_anchor()), DVec3::from_array(c.eff_width()));
    let grid = hooks::Grid::new(a, w, c.periodic, c.dimensionality());
    let gens = hooks::make_generators(&c.gens_v(), c.dimensionality());
    let active: Vec<usize> = (0..n).filter(|&i| c.mask.as_ref().map_or(true, |m| m[i])).collect();
    if active.is_empty() {
        return Ok(());
    }
    // up to 6 cells, spread over the constructed ones (deterministic function of the case)
    let h = c.hash64() as usize;
    let picks: std::collections::BTreeSet<usize> = (0..6usize).map(|k| active[(h / 7usize.pow(k as u32) + k * active.len() / 6) % active.len()]).collect();
    for i in picks {
        let seq = hooks::nn_sequence(&c.gens_v(), i, c.dimensionality(), c.periodic, w, usize::MAX);
        let loc = gens[i].loc();
        let mut cell = hooks::cell_init(loc, i, &grid);
        for (j, s) in seq.iter().skip(1) {
            let ngb = gens[*j].loc() + s.unwrap_or(DVec3::ZERO);
            let dx = loc - ngb;
            let dist = dx.length();
            if hooks::cell_safety_radius(&cell) < dist {
                break;
            }
            let hs = HalfSpace::new(dx / dist, 0.5 * (loc + ngb), Some(*j), *s);
            for (k, (filter, exact)) in hooks::clip_decisions(&cell, &hs, &gens, &grid).into_iter().enumerate() {
                cs.count("clip_decisions_compared", 1);
                if filter == 0. {
                    cs.count("clip_decisions_left_to_the_exact_predicate", 1);
                } else if (filter < 0.) != (exact < 0.) {
                    let v = &cell.vertices[k];
                    return Err(format!(
                        "cell {i}, clip by generator {j} shift {:?}: the floating point filter decides {} for the vertex on planes {:?} at {:?} (n.(v-p) = {:e}), the exact predicate on the snapped generators decides {}: the cell's topology is not the one its neighbours see",
                        s,
                        if filter < 0. { "REMOVE" } else { "KEEP" },
                        v.dual,
                        v.loc,
                        hs.plane.n.dot(v.loc - hs.plane.p),
                        if exact < 0. { "REMOVE" } else if exact == 0. { "KEEP (exact tie)" } else { "KEEP" }
                    ));
                }
            }
            hooks::cell_clip(&mut cell, hs, &gens, &grid);
        }
        cs.count("cells_replayed_clip_by_clip", 1);
    }
    Ok(())
}

/// Clause 3: the returned values satisfy C01-C04 (their oracles, unchanged, on the degenerate
/// stream). Labels and counters of the sub-oracles are merged under a prefix.
fn sub_oracle(name: &str, f: crate::runner::CheckFn, c: &Case, cs: &mut CaseStats) -> Result<(), String> {
    let mut sub = CaseStats::default();
    let r = f(c, &mut sub);
    cs.count(&format!("{name}_oracle_runs"), 1);
    if sub.nontrivial {
        cs.count(&format!("{name}_oracle_nontrivial"), 1);
    }
    for l in sub.labels {
        if l.starts_with("known-finding") || l == "unresolvable-arrangement" {
            cs.label(l);
        }
    }
    r.map_err(|m| if m.starts_with("INFRA:") { m } else { format!("{name} oracle on a degenerate input: {m}") })
}

pub fn check(c: &Case, cs: &mut CaseStats) -> Result<(), String> {
    gen::classify(c, cs);
    if !gen::is_valid(c) {
        return Err("INFRA: generator produced an invalid case".into());
    }
    total_and_finite(c, cs)?;
    // smallest separation relative to the coordinate scale
    let n = c.n();
    let mut min_sep = f64::INFINITY;
    if n <= 200 {
        for i in 0..n {
            for j in 0..i {
                min_sep = min_sep.min(gen::active_dist(c, &c.gens[i], &c.gens[j]));
            }
        }
    }
    if min_sep <= 1e-9 * c.scale_l() {
        cs.label("separation<=1e-9L");
    }
    if c.mask.is_none() {
        sub_oracle("C02", super::c02::check, c, cs)?;
        if n <= 24 {
            sub_oracle("C01", super::c01::check, c, cs)?;
        }
    }
    sub_oracle("C03", super::c03::check, c, cs)?;
    sub_oracle("C04", super::c04::check, c, cs)?;
    clip_consistency(c, cs)?;
    if cs.labels.contains("exact-path") || cs.labels.contains("gen-on-wall") || n == 1 || cs.labels.contains("separation<=1e-9L") {
        cs.nt();
    }
    Ok(())
}

/// The oracle used by the coverage-guided target `fz_tess`: as `check`, without the brute-force
/// reference of C01 (three perturbed replicas per cell dominate the cost of a tiny case and
/// throughput is what a fuzzer lives on). Crashes are re-checked with the full oracle by replay.
pub fn check_fuzz(c: &Case, cs: &mut CaseStats) -> Result<(), String> {
    if !gen::is_valid(c) {
        return Err("INFRA: invalid case".into());
    }
    total_and_finite(c, cs)?;
    if c.mask.is_none() {
        sub_oracle("C02", super::c02::check, c, cs)?;
    }
    sub_oracle("C03", super::c03::check, c, cs)?;
    sub_oracle("C04", super::c04::check, c, cs)?;
    Ok(())
}

pub fn def() -> PropDef {
    PropDef {
        id: "C05",
        rule: "cases: 3/4 from the degenerate-weighted family mix (exact lattices cell-centred and boundary-including, lattices perturbed by 1e-16..1e-6 and by 0.5..1 cell, points snapped to faces / edges / all corners, co-spherical and co-circular sets with radial perturbations 1e-15..1e-9, collinear / coplanar / layered sets, dyadic rationals, shared-coordinate pools, clusters of diameter 1e-3..1e-12, n = 1 and 2, uniform), n to 64, masks mixed, offsets to 2^20; 1/4 rounding-level lattices: k^d lattices (k = 2..5) in boxes up to 2^30 widths from the origin with every coordinate perturbed by s L 2^-j, j = 38..54 (ties broken at the level of the coordinate rounding); all dimensionalities, periodic or not. Executed in the release AND in the debug-assertions build. oracle: (1) no panic from Voronoi::build / build_partial / VoronoiIntegrator::build / with_faces / Voronoi::from, (2) every returned number finite, (3) the unchanged oracles of C02 (tiling), C03 (reciprocity), C04 (normals, closure, divergence) on the same result and of C01 (brute-force reference) for unmasked n <= 24. non-trivial: the exact predicate was consulted (hook counter) or a generator lies on a wall or n = 1 or the smallest separation is <= 1e-9 L; distinct by case hash; evidence carries the number of exact-predicate invocations and exact zeros.",
        strategy,
        check,
        cases: |t| t.pick(12_000, 400_000),
        profiles: &["release", "dbg"],
        required: &["exact-path", "gen-on-wall", "n=1", "fam:Lr", "fam:Lb", "separation<=1e-9L", "dim1", "dim2", "dim3", "periodic"],
        fixed: None,
        assumptions: &["valid input as in C01 (closed box, separation >= 2^-44 L)", "exemptions of the sub-oracles as stated for C01-C04 (ill-conditioned cells, unresolvable arrangements, low-dimensional areas at coordinates > 1e10)", "termination is observed as finishing within the watchdog; a watchdog hit is reported as inconclusive"],
    }
}
