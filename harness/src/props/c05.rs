//! C05 — construction is total and robust on boundary and degenerate inputs.
use crate::case::Case;
use crate::gen::{self, GenOpts, MaskMode, DEGENERATE_FAMS};
use crate::obs;
use crate::runner::{CaseStats, PropDef, Tier};
use meshless_voronoi::integrals::{AreaCentroidIntegral, VolumeCentroidIntegral};
use meshless_voronoi::verif_hooks as hooks;
use proptest::strategy::BoxedStrategy;

fn strategy(_tier: Tier) -> BoxedStrategy<Case> {
    gen::case_strategy(GenOpts { max_n: 64, big_n_weight: 1, fams: DEGENERATE_FAMS.to_vec(), masks: MaskMode::Mixed, max_offset_log2: 20, ..GenOpts::default() })
}

fn finite3(v: &[f64; 3]) -> bool {
    v.iter().all(|x| x.is_finite())
}

/// Clause 1+2: no panic (panics are caught by the runner and reported with their message),
/// every returned number finite.
pub fn total_and_finite(c: &Case, cs: &mut CaseStats) -> Result<(), String> {
    hooks::reset_exact_calls();
    let v = obs::build(c);
    let o = obs::observe(&v);
    for (i, cell) in o.cells.iter().enumerate() {
        if !(cell.volume.is_finite() && finite3(&cell.centroid) && finite3(&cell.loc) && cell.safety_radius.is_finite()) {
            return Err(format!("Voronoi: cell {i} has a non-finite value: {:?}", cell));
        }
    }
    for (i, f) in o.faces.iter().enumerate() {
        if !(f.area.is_finite() && finite3(&f.centroid) && finite3(&f.normal)) {
            return Err(format!("Voronoi: face {i} has a non-finite value: {:?}", f));
        }
    }
    let vi = obs::integrator(c, c.mask.as_deref());
    for x in vi.compute_cell_integrals::<VolumeCentroidIntegral>() {
        if !(x.volume.is_finite() && x.centroid.is_finite()) {
            return Err("integrator: non-finite cell integral".into());
        }
    }
    for x in vi.compute_face_integrals::<AreaCentroidIntegral>() {
        if !(x.integral().area.is_finite() && x.integral().centroid.is_finite()) {
            return Err("integrator: non-finite face integral".into());
        }
    }
    if c.dim == 3 {
        let vf = vi.with_faces();
        for x in vf.compute_cell_integrals::<VolumeCentroidIntegral>() {
            if !(x.volume.is_finite() && x.centroid.is_finite()) {
                return Err("integrator with faces: non-finite cell integral".into());
            }
        }
        let back = meshless_voronoi::Voronoi::from(&vf);
        if back.cells().len() != c.n() {
            return Err("Voronoi::from(with faces): wrong number of cells".into());
        }
    }
    let (calls, zeros) = hooks::exact_calls();
    cs.count("exact_calls", calls);
    cs.count("exact_zeros", zeros);
    if calls > 0 {
        cs.label("exact-path");
    }
    Ok(())
}

pub fn check(c: &Case, cs: &mut CaseStats) -> Result<(), String> {
    gen::classify(c, cs);
    if !gen::is_valid(c) {
        return Err("INFRA: generator produced an invalid case".into());
    }
    total_and_finite(c, cs)?;
    if cs.labels.contains("exact-path") || cs.labels.contains("gen-on-wall") || c.n() == 1 {
        cs.nt();
    }
    Ok(())
}

pub fn def() -> PropDef {
    PropDef {
        id: "C05",
        rule: "TODO",
        strategy,
        check,
        cases: |t| t.pick(3000, 100_000),
        profiles: &["release", "dbg"],
        required: &["exact-path", "gen-on-wall", "n=1"],
        fixed: None,
        assumptions: &[],
    }
}
