//! C12 — cell-face connectivity is a consistent index structure.
use crate::case::Case;
use crate::gen::{self, GenOpts, MaskMode};
use crate::obs::{self, ObsVoronoi};
use crate::runner::{CaseStats, PropDef, Tier};
use meshless_voronoi::Voronoi;
use proptest::strategy::BoxedStrategy;
use std::collections::BTreeSet;

fn strategy(tier: Tier) -> BoxedStrategy<Case> {
    gen::case_strategy(GenOpts { max_n: tier.pick(600, 2000), big_n_weight: 1, masks: MaskMode::Mixed, max_offset_log2: 12, ..GenOpts::default() })
}

/// Rebuild the expected structure from `faces()` alone and compare.
pub fn check_structure(o: &ObsVoronoi, route: &str, cs: &mut CaseStats, constructed: &[bool]) -> Result<bool, String> {
    let n = o.cells.len();
    let nf = o.faces.len();
    let mut lists: Vec<Vec<usize>> = vec![vec![]; n];
    for (k, f) in o.faces.iter().enumerate() {
        if f.left >= n {
            return Err(format!("{route}: face {k} has left {} >= n", f.left));
        }
        lists[f.left].push(k);
        if let Some(r) = f.right {
            if r >= n {
                return Err(format!("{route}: face {k} has right {r} >= n"));
            }
            if f.shift.is_none() {
                lists[r].push(k);
            }
        }
    }
    let mut prefix = 0usize;
    let mut interesting = false;
    for (i, c) in o.cells.iter().enumerate() {
        if c.offset != prefix {
            return Err(format!("{route}: cell {i} face_connections_offset {} != prefix sum {prefix}", c.offset));
        }
        if c.count != lists[i].len() {
            return Err(format!("{route}: cell {i} face_count {} but {} faces have it as left / unshifted right", c.count, lists[i].len()));
        }
        if prefix + c.count > o.conn.len() {
            return Err(format!("{route}: cell {i} slice exceeds the connectivity array"));
        }
        let slice = &o.conn[prefix..prefix + c.count];
        if slice != c.face_indices.as_slice() {
            return Err(format!("{route}: cell {i} face_indices() is not its slice of the connectivity array"));
        }
        let set: BTreeSet<usize> = slice.iter().copied().collect();
        if set.len() != slice.len() {
            return Err(format!("{route}: cell {i} lists a face twice: {:?}", slice));
        }
        if let Some(&bad) = slice.iter().find(|&&k| k >= nf) {
            return Err(format!("{route}: cell {i} lists face index {bad} >= {nf}"));
        }
        let want: BTreeSet<usize> = lists[i].iter().copied().collect();
        if set != want {
            return Err(format!("{route}: cell {i} lists faces {:?}, expected {:?}", set, want));
        }
        // neighbour iterator
        let mut want_ngb: Vec<usize> = vec![];
        for &k in slice {
            let f = &o.faces[k];
            if f.shift.is_some() || f.right.is_none() {
                continue;
            }
            want_ngb.push(if f.left == i { f.right.unwrap() } else { f.left });
        }
        let got: BTreeSet<usize> = c.neighbour_ids.iter().copied().collect();
        if got.len() != c.neighbour_ids.len() {
            return Err(format!("{route}: cell {i} neighbour_ids yields a duplicate: {:?}", c.neighbour_ids));
        }
        if got.contains(&i) {
            return Err(format!("{route}: cell {i} neighbour_ids yields the cell itself: {:?}", c.neighbour_ids));
        }
        let want_set: BTreeSet<usize> = want_ngb.iter().copied().collect();
        if got != want_set {
            return Err(format!("{route}: cell {i} neighbour_ids {:?} != other sides of its listed interior faces {:?}", got, want_set));
        }
        if !constructed[i] && c.count > 0 {
            interesting = true;
            cs.count("unconstructed_cells_listing_faces", 1);
        }
        prefix += c.count;
    }
    if prefix != o.conn.len() {
        return Err(format!("{route}: face counts sum to {prefix}, connectivity array has {}", o.conn.len()));
    }
    cs.count("cells_walked", n as u64);
    cs.count("faces_walked", nf as u64);
    Ok(interesting)
}

pub fn check(c: &Case, cs: &mut CaseStats) -> Result<(), String> {
    gen::classify(c, cs);
    if !gen::is_valid(c) {
        return Err("INFRA: generator produced an invalid case".into());
    }
    let n = c.n();
    let constructed: Vec<bool> = c.mask.clone().unwrap_or(vec![true; n]);
    let direct = obs::observe(&obs::build(c));
    let mut interesting = check_structure(&direct, "direct", cs, &constructed)?;
    let vi = obs::integrator(c, c.mask.as_deref());
    let via = obs::observe(&Voronoi::from(&vi));
    interesting |= check_structure(&via, "via integrator", cs, &constructed)?;
    if c.dim == 3 {
        // third route: the integrator whose cells store their faces
        let via_wf = obs::observe(&Voronoi::from(&vi.clone().with_faces()));
        interesting |= check_structure(&via_wf, "via integrator.with_faces()", cs, &constructed)?;
        cs.label("with-faces-route");
    }
    let shifted = direct.faces.iter().filter(|f| f.shift.is_some()).count();
    cs.count("shifted_faces", shifted as u64);
    if interesting || (c.periodic && shifted > 0) {
        cs.nt();
    }
    if interesting {
        cs.label("unconstructed-cell-with-faces");
    }
    Ok(())
}

pub fn def() -> PropDef {
    PropDef {
        id: "C12",
        rule: "cases: all families x masks (none, all-true, all-false, single, complement, prefix, Bernoulli 0.1/0.5/0.9), dims 1-3, periodic or not, n to 600 (quick) / 2000 (thorough), both routes (Voronoi::build(_partial) and Voronoi::from(&VoronoiIntegrator)); oracle (model): the expected structure rebuilt from faces() alone - cell i lists exactly {f: left(f)=i} U {f: right(f)=i, no shift}, duplicate free; offsets = prefix sums of counts; total = array length; face_indices = the slice; neighbour_ids duplicate free, never the cell itself, equal to the other sides of the listed interior unshifted faces, also for unconstructed cells. non-trivial: (some unconstructed cell lists >= 1 face) or (periodic with >= 1 shifted face); distinct by case hash. In 3D the structure of Voronoi::from(&integrator.with_faces()) is checked as a third route.",
        strategy,
        check,
        cases: |t| t.pick(5000, 250_000),
        profiles: &["release"],
        required: &["unconstructed-cell-with-faces", "periodic", "mask:mixed", "mask:all-false", "dim1", "dim2", "dim3"],
        fixed: None,
        assumptions: &["valid input as in C01"],
    }
}
