//! C08 — 1D and 2D tessellations depend only on the active coordinates.
use crate::case::Case;
use crate::cellinfo::{ball_surface, cell_infos, face_perimeter_bound};
use crate::gen::{self, GenOpts, MaskMode};
use crate::obs;
use crate::refmodel::closed_form_1d;
use crate::runner::{CaseStats, PropDef, Tier};
use crate::tol;
use proptest::strategy::BoxedStrategy;
use std::collections::BTreeMap;

fn strategy(tier: Tier) -> BoxedStrategy<Case> {
    use proptest::prelude::*;
    let base = gen::case_strategy(GenOpts { dims: vec![1, 2], max_n: tier.pick(200, 600), big_n_weight: 1, garbage_pct: 100, masks: MaskMode::Mixed, max_offset_log2: 16, ..GenOpts::default() });
    // "arbitrary values" in the unused coordinates: a quarter of the cases also gets non-finite
    // ones (NaN, +-inf) in some unused components of generators, anchor and width
    (base, 0u32..4, any::<u64>())
        .prop_map(|(mut c, kind, bits)| {
            if kind == 0 {
                const NF: [f64; 3] = [f64::NAN, f64::INFINITY, f64::NEG_INFINITY];
                let d = c.d();
                let mut x = bits | 1;
                let mut next = || {
                    x ^= x << 13;
                    x ^= x >> 7;
                    x ^= x << 17;
                    x
                };
                for k in d..3 {
                    if next() % 3 == 0 {
                        c.anchor[k] = NF[(next() % 3) as usize];
                    }
                    if next() % 3 == 0 {
                        c.width[k] = NF[(next() % 3) as usize];
                    }
                    for g in c.gens.iter_mut() {
                        if next() % 2 == 0 {
                            g[k] = NF[(next() % 3) as usize];
                        }
                    }
                }
                c.family.push_str("+nonfinite");
            }
            c
        })
        .boxed()
}

pub fn check(c: &Case, cs: &mut CaseStats) -> Result<(), String> {
    gen::classify(c, cs);
    if !gen::is_valid(c) || c.dim > 2 {
        return Err("INFRA: generator produced an invalid case".into());
    }
    let n = c.n();
    let d = c.d();
    if c.family.ends_with("+nonfinite") {
        cs.label("nonfinite-unused-coordinates");
    }
    let built = obs::build(c);
    if built.dimensionality() != d {
        return Err(format!("Voronoi::dimensionality() = {} for a {d}D tessellation", built.dimensionality()));
    }
    let v = obs::observe(&built);
    // --- (a) metamorphic: garbage vs canonical unused coordinates -> bitwise identical
    let mut canon = c.clone();
    let mut differs_gen = false;
    let mut differs_box = false;
    for k in d..3 {
        differs_box |= canon.anchor[k].to_bits() != 0f64.to_bits() || canon.width[k].to_bits() != 1f64.to_bits();
        canon.anchor[k] = 0.;
        canon.width[k] = 1.;
        for g in canon.gens.iter_mut() {
            differs_gen |= g[k].to_bits() != 0f64.to_bits();
            g[k] = 0.;
        }
    }
    let vc = obs::observe(&obs::build(&canon));
    let (da, db) = (obs::dump(&v), obs::dump(&vc));
    if let Some(p) = obs::first_diff(&da, &db) {
        return Err(format!("the tessellation changes (dump word {p}) when the unused coordinates of generators / anchor / width are replaced by 0 / 0 / 1"));
    }
    if v.anchor != vc.anchor || v.width != vc.width {
        return Err(format!("anchor()/width() depend on the unused input components: {:?}/{:?} vs {:?}/{:?}", v.anchor, v.width, vc.anchor, vc.width));
    }
    // --- (d) faces: unit normals inside the active subspace, no walls of unused axes
    for (k, f) in v.faces.iter().enumerate() {
        let nrm = obs::v3(f.normal);
        if (nrm.length() - 1.).abs() > 8. * tol::U {
            return Err(format!("face {k}: normal {:?} is not a unit vector", nrm));
        }
        for a in d..3 {
            if nrm[a] != 0. {
                return Err(format!("face {k}: normal {:?} has a component along the unused axis {a}", nrm));
            }
        }
    }
    // the same for the faces reported by the face integrals of the integrator (non-symmetric and
    // symmetric entry points): only planes inside the active subspace, in 1D exactly two per cell
    {
        use crate::obs::PlaneFace;
        let vi = obs::integrator(c, c.mask.as_deref());
        for cell in vi.cells_iter() {
            for (what, list) in [("compute_face_integrals", cell.compute_face_integrals::<(), PlaneFace>(())), ("compute_face_integrals_sym", cell.compute_face_integrals_sym::<(), PlaneFace>((), &c.mask.clone().unwrap_or(vec![true; n])))] {
                for f in &list {
                    let nrm = cell.clipping_planes[f.integral().plane_idx].normal();
                    for a in d..3 {
                        if nrm[a] != 0. {
                            return Err(format!("cell {}: {what} reports a face with normal {:?} (component along the unused axis {a})", cell.idx, nrm));
                        }
                    }
                }
                if d == 1 && what == "compute_face_integrals" && list.len() != 2 {
                    return Err(format!("1D cell {}: {what} reports {} faces, a 1D cell has exactly two", cell.idx, list.len()));
                }
            }
            cs.count("integrator_cells_face_normals_checked", 1);
        }
    }
    let active: Vec<bool> = c.mask.clone().unwrap_or(vec![true; n]);
    let unresolvable = crate::refcmp::unresolvable(c);
    // --- (b) 1D closed form
    if d == 1 && !unresolvable {
        let cf = closed_form_1d(c);
        let l = c.scale_l();
        for i in 0..n {
            if !active[i] {
                continue;
            }
            let (lo, hi) = cf[i];
            let tolv = 64. * tol::U * l + 1e-12 * (hi - lo);
            let cell = &v.cells[i];
            if (cell.volume - (hi - lo)).abs() > tolv {
                return Err(format!("1D cell {i}: length {:e}, closed form {:e} (boundaries at the midpoints {lo} / {hi})", cell.volume, hi - lo));
            }
            if (cell.centroid[0] - 0.5 * (lo + hi)).abs() > tolv.max(64. * tol::U * l) {
                return Err(format!("1D cell {i}: centroid x = {}, closed form {}", cell.centroid[0], 0.5 * (lo + hi)));
            }
            if cell.count != 2 {
                return Err(format!("1D cell {i} lists {} faces, expected exactly 2", cell.count));
            }
            let mut xs = vec![];
            for &k in &cell.face_indices {
                let f = &v.faces[k];
                if (f.area - 1.).abs() > 1e-9 && !tol::lowdim_area_unreliable(c) {
                    return Err(format!("1D cell {i}: face {k} has area {:e}, expected 1", f.area));
                }
                if f.normal[0].abs() != 1. {
                    return Err(format!("1D cell {i}: face {k} has normal {:?}, expected +-e_x", f.normal));
                }
                // position of the face in the frame of this cell
                let mut x = f.centroid[0];
                if f.left != i {
                    // seen from the right cell: only unshifted faces are listed here
                } else if f.shift.is_some() {
                    // periodic face listed by its left cell: centroid is in the left cell's frame
                }
                if !(x.is_finite()) {
                    x = f64::NAN;
                }
                xs.push(x);
            }
            xs.sort_by(|a, b| a.partial_cmp(b).unwrap());
            if !tol::lowdim_area_unreliable(c) && ((xs[0] - lo).abs() > tolv || (xs[1] - hi).abs() > tolv) {
                return Err(format!("1D cell {i}: faces at x = {:?}, closed form boundaries {lo} / {hi}", xs));
            }
            cs.count("cells_1d_closed_form", 1);
        }
    }
    // --- (c) 2D vs the 3D tessellation of the same generators at z = 0 in a unit slab
    // (the slab has unit thickness: keep its aspect ratio inside the 2^14 that the properties
    // quantify over)
    let slab_ok = (0..2).all(|k| c.width[k] >= 2f64.powi(-7) && c.width[k] <= 2f64.powi(7));
    if d == 2 && !slab_ok {
        cs.count("slab_comparisons_skipped_aspect", 1);
    }
    if d == 2 && !unresolvable && n <= 300 && slab_ok {
        cs.label("slab-compared");
        let mut slab = canon.clone();
        slab.dim = 3;
        slab.anchor[2] = -0.5;
        slab.width[2] = 1.;
        let vs = obs::observe(&obs::build(&slab));
        let vi = obs::integrator(&canon, canon.mask.as_deref());
        let infos = cell_infos(&canon, &vi);
        let thr = tol::face_threshold(c);
        let lowdim_bad = tol::lowdim_area_unreliable(c);
        for i in 0..n {
            if !active[i] {
                continue;
            }
            let info = infos[i].as_ref().unwrap();
            let (a, b) = (&v.cells[i], &vs.cells[i]);
            let tolv = info.pos * ball_surface(2, info.r) * 32. + 1e-11 * a.volume.abs();
            if (a.volume - b.volume).abs() > tolv {
                return Err(format!("2D cell {i}: area {:e}, volume of the 3D slab cell {:e} (tol {:e})", a.volume, b.volume, tolv));
            }
            if tolv < 0.125 * a.volume.abs() {
                let tolc = 2. * info.r * tolv / a.volume + info.pos;
                let dc = ((a.centroid[0] - b.centroid[0]).powi(2) + (a.centroid[1] - b.centroid[1]).powi(2)).sqrt();
                if dc > tolc {
                    return Err(format!("2D cell {i}: centroid {:?} vs {:?} in the 3D slab (tol {:e})", a.centroid, b.centroid, tolc));
                }
            }
            if !info.well || lowdim_bad {
                continue;
            }
            // in-plane faces (the slab's z walls are ignored)
            let key = |o: &obs::ObsVoronoi, i: usize| -> BTreeMap<(Option<usize>, [u64; 3], [i8; 2]), f64> {
                let mut m = BTreeMap::new();
                for &k in &o.cells[i].face_indices {
                    let f = &o.faces[k];
                    if f.right.is_none() && f.normal[2] != 0. {
                        continue;
                    }
                    let other = if f.left == i { f.right } else { Some(f.left) };
                    let s = f.shift.unwrap_or([0.; 3]);
                    if s[2] != 0. {
                        // periodic slab: the images across z take the place of the z walls
                        continue;
                    }
                    let wall = if f.right.is_none() { [f.normal[0] as i8, f.normal[1] as i8] } else { [0, 0] };
                    m.insert((other, [(s[0] + 0.).to_bits(), (s[1] + 0.).to_bits(), 0], wall), f.area);
                }
                m
            };
            let (fa, fb) = (key(&v, i), key(&vs, i));
            let tola = info.pos * face_perimeter_bound(2, info.r) * 4.;
            for (k, x) in &fa {
                match fb.get(k) {
                    Some(y) => {
                        if (x - y).abs() > tola + 1e-11 * x.abs() && x.max(*y) > thr {
                            return Err(format!("2D cell {i}: face {:?} has length {:e}, area {:e} in the unit slab", k, x, y));
                        }
                        cs.count("faces_2d_vs_slab", 1);
                    }
                    None => {
                        if *x > thr + tola {
                            return Err(format!("2D cell {i}: face {:?} (length {:e}) absent from the 3D slab tessellation", k, x));
                        }
                    }
                }
            }
            for (k, y) in &fb {
                if !fa.contains_key(k) && *y > thr + tola {
                    return Err(format!("2D cell {i}: the 3D slab tessellation has a face {:?} (area {:e}) that the 2D one lacks", k, y));
                }
            }
        }
    }
    if differs_gen {
        cs.label("garbage-in-generators");
    }
    if differs_box {
        cs.label("garbage-in-box");
    }
    if differs_gen && differs_box && n >= 2 {
        cs.nt();
    }
    Ok(())
}

pub fn def() -> PropDef {
    PropDef {
        id: "C08",
        rule: "cases: 1D and 2D inputs from all families x masks, periodic or not, n to 200 (quick) / 600 (thorough), the unused components of generators, anchor and width filled with garbage (0, -0.0, +-1e300, subnormals, f64::MAX, random; in a quarter of the cases also NaN and +-inf); oracles: (a) metamorphic, bitwise: replacing the garbage by 0/0/1 leaves the canonical dump unchanged; (b) 1D closed form: cell = [midpoint to the left neighbour, midpoint to the right neighbour] (seam wrapped if periodic), two faces of area 1 with normals +-e_x at those positions; (c) 2D vs the 3D tessellation of the same generators at z = 0 in a slab of unit thickness: equal measures, centroids and in-plane faces; (d) unit normals with exactly zero unused components, also for every face reported by the (symmetric and non-symmetric) face integrals of the integrator, 1D cells report exactly two faces, dimensionality() echoes the input. non-trivial: garbage differs from the canonical values on a generator and on the box, n >= 2; distinct by case hash.",
        strategy,
        check,
        cases: |t| t.pick(6000, 300_000),
        profiles: &["release"],
        required: &["dim1", "dim2", "garbage-in-generators", "garbage-in-box", "nonfinite-unused-coordinates", "periodic", "reflective", "slab-compared", "cells_1d_closed_form"],
        fixed: None,
        assumptions: &["valid input as in C01 (garbage is finite)", "tolerances from the library's own conditioning for the slab comparison"],
    }
}
