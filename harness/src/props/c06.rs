//! C06 — periodic tessellation equals that of the infinitely replicated point set.
use crate::case::Case;
use crate::cellinfo::{ball_surface, cell_infos, face_perimeter_bound};
use crate::gen::{self, GenOpts};
use crate::obs;
use crate::runner::{CaseStats, PropDef, Tier};
use crate::tol;
use glam::DVec3;
use proptest::prelude::*;
use proptest::strategy::BoxedStrategy;
use std::collections::BTreeMap;

fn strategy(_tier: Tier) -> BoxedStrategy<Case> {
    let base = gen::case_strategy(GenOpts { periodic: Some(true), max_n: 24, max_offset_log2: 16, ..GenOpts::default() });
    (base, [-2.0f64..2.0, -2.0f64..2.0, -2.0f64..2.0], 0u8..4)
        .prop_map(|(mut c, t, mode)| {
            // translation vector in units of the width; some seam-aligned ones
            let t = match mode {
                0 => [t[0].round(), t[1].round() * 0.5, t[2]],
                1 => [0.5, 0.5, 0.5],
                _ => t,
            };
            c.aux_f = vec![t[0], t[1], t[2]];
            c
        })
        .boxed()
}

type FaceMap = BTreeMap<(usize, usize, [i32; 3]), f64>;

/// faces of a periodic tessellation keyed by (i, j, integer lattice offset of the neighbour
/// image relative to cell i) -> area, each face seen from its left cell (non symmetric view
/// through the integrator so that every cell lists all of its faces)
fn face_map(c: &Case) -> (Vec<f64>, Vec<DVec3>, FaceMap) {
    let vi = obs::integrator(c, None);
    let views = obs::cell_views(&vi, c.n());
    let w = c.eff_width();
    let gens = c.eff_gens();
    let mut m = FaceMap::new();
    for cv in &views {
        for f in &cv.faces {
            if let Some(j) = f.right {
                let s = f.shift.unwrap_or([0.; 3]);
                // translation invariant key: which image of j, measured from g_i
                let mut k = [0i32; 3];
                for a in 0..c.d() {
                    k[a] = ((gens[j][a] + s[a] - gens[cv.idx][a]) / w[a]).round() as i32;
                }
                // the key must distinguish images: use the shift itself plus the cell offset
                let _ = k;
                let si = obs::shift_ints(f.shift.map(DVec3::from_array), &w);
                m.insert((cv.idx, j, si), f.area);
            }
        }
    }
    (views.iter().map(|v| v.volume).collect(), views.iter().map(|v| DVec3::from_array(v.centroid)).collect(), m)
}

pub fn check(c: &Case, cs: &mut CaseStats) -> Result<(), String> {
    gen::classify(c, cs);
    if !gen::is_valid(c) || !c.periodic {
        return Err("INFRA: generator produced an invalid case".into());
    }
    let n = c.n();
    let d = c.d();
    let w = c.eff_width();
    let a = c.eff_anchor();
    let gens = c.eff_gens();
    let v = obs::observe(&obs::build_full(c));
    // --- (c) structural clauses
    let mut shifted = 0u64;
    for (k, f) in v.faces.iter().enumerate() {
        if f.right.is_none() {
            return Err(format!("face {k} (left {}) is a boundary face in a periodic tessellation (normal {:?})", f.left, f.normal));
        }
        if let Some(s) = f.shift {
            if s.iter().all(|x| *x == 0.) {
                return Err(format!("face {k}: shift is Some(0, 0, 0)"));
            }
            for ax in 0..3 {
                let ok = if ax < d { s[ax] == 0. || s[ax] == w[ax] || s[ax] == -w[ax] } else { s[ax] == 0. };
                if !ok {
                    return Err(format!("face {k}: shift {:?} is not a lattice vector with components in {{-w, 0, +w}} on the active axes (w = {:?})", s, w));
                }
            }
            shifted += 1;
        }
    }
    cs.count("shifted_faces", shifted);
    if crate::refcmp::unresolvable(c) {
        cs.label("unresolvable-arrangement");
        return Ok(());
    }
    let lowdim_bad = tol::lowdim_area_unreliable(c);
    let vi = obs::integrator(c, None);
    let infos = cell_infos(c, &vi);
    let (vols, cents, fm) = face_map(c);
    let thr = tol::face_threshold(c);
    // --- (a) differential against the library's own non-periodic mode on the 3^d-fold
    // replicated generators
    let mut rep = c.clone();
    rep.periodic = false;
    rep.aux_f.clear();
    rep.gens.clear();
    let rng = |ax: usize| if ax < d { 0..3i32 } else { 1..2i32 };
    let mut block_of: Vec<[i32; 3]> = vec![];
    for bx in rng(0) {
        for by in rng(1) {
            for bz in rng(2) {
                let b = [bx - 1, by - 1, bz - 1];
                block_of.push(b);
                for g in &gens {
                    rep.gens.push([g[0] + b[0] as f64 * w[0], g[1] + b[1] as f64 * w[1], g[2] + b[2] as f64 * w[2]]);
                }
            }
        }
    }
    for ax in 0..d {
        // the tripled box, widened by the rounding of the replicated positions so that every
        // replica lies inside the closed box (a valid input of the non-periodic mode)
        let lo = rep.gens.iter().map(|g| g[ax]).fold(a[ax] - w[ax], f64::min);
        let hi = rep.gens.iter().map(|g| g[ax]).fold(a[ax] + 2. * w[ax], f64::max);
        rep.anchor[ax] = lo;
        let mut width = hi - lo;
        while lo + width < hi {
            width = f64::from_bits(width.to_bits() + 1);
        }
        rep.width[ax] = width;
    }
    if !gen::is_valid(&rep) {
        return Err("INFRA: replicated case invalid".into());
    }
    let central = block_of.iter().position(|b| *b == [0, 0, 0]).unwrap();
    let rvi = obs::integrator(&rep, None);
    let rviews = obs::cell_views(&rvi, rep.n());
    for i in 0..n {
        let info = infos[i].as_ref().unwrap();
        let rv = &rviews[central * n + i];
        // a sliver that pivots about a close pair may be tiny in one build and extend across the
        // box in the other (the two builds snap onto different integer grids): the extent is the
        // larger of the two cells (same reasoning as for C01's reference comparison)
        let diag = (0..d).map(|k| w[k] * w[k]).sum::<f64>().sqrt() * 2.;
        let r_eff = info.r.max((0.5 * rv.safety_radius).min(diag));
        let pos_eff = info.pos + if info.s_min.is_finite() { tol::snap_theta(c, info.s_min) * (r_eff - info.r) } else { 0. };
        let tolv = pos_eff * ball_surface(d, r_eff) * 4. + 1e-11 * vols[i].abs();
        if (rv.volume - vols[i]).abs() > tolv {
            return Err(format!("cell {i}: periodic volume {:e} but {:e} in the non-periodic tessellation of the replicated generators (tol {:e})", vols[i], rv.volume, tolv));
        }
        cs.max("replicated_volume_diff_over_tol", (rv.volume - vols[i]).abs() / tolv);
        if tolv < 0.125 * vols[i] {
            let tolc = 2. * r_eff * tolv / vols[i] + pos_eff;
            let dc = tol::active_distance(c, DVec3::from_array(rv.centroid), cents[i]);
            if dc > tolc {
                return Err(format!("cell {i}: periodic centroid {:?} vs {:?} in the replicated tessellation (tol {:e})", cents[i], rv.centroid, tolc));
            }
        }
        if !info.well || lowdim_bad {
            cs.count("cells_faces_skipped_ill_conditioned_or_lowdim", 1);
            continue;
        }
        // faces: neighbour block*n + j  <->  (j, shift = block)
        let mut rep_faces: BTreeMap<(usize, [i32; 3]), f64> = BTreeMap::new();
        for f in &rv.faces {
            match f.right {
                Some(r) => {
                    rep_faces.insert((r % n, block_of[r / n]), f.area);
                }
                None => {
                    if f.area > thr {
                        return Err(format!("replicated tessellation: central cell {i} touches a wall of the tripled box (area {:e})", f.area));
                    }
                }
            }
        }
        let tola = pos_eff * face_perimeter_bound(d, r_eff) * 4.;
        let mine: Vec<(&(usize, usize, [i32; 3]), &f64)> = fm.range((i, 0, [i32::MIN; 3])..(i + 1, 0, [i32::MIN; 3])).collect();
        for (key, area) in &mine {
            // a face shared with an ill-conditioned cell is the known finding 'ill-conditioned'
            // (same exemption as in C03: both cells of the pair must be well conditioned)
            if !infos[key.1].as_ref().map_or(true, |x| x.well) {
                cs.count("faces_skipped_ill_conditioned_neighbour", 1);
                continue;
            }
            match rep_faces.get(&(key.1, key.2)) {
                Some(ra) => {
                    if (*ra - **area).abs() > tola + 1e-11 * area.abs() && area.max(*ra) > thr {
                        return Err(format!("cell {i}: face towards {} shift {:?} has area {:e}, {:e} in the replicated tessellation (tol {:e})", key.1, key.2, area, ra, tola));
                    }
                    cs.count("replicated_faces_compared", 1);
                }
                None => {
                    if **area > thr + tola {
                        return Err(format!("cell {i}: face towards {} shift {:?} (area {:e}) does not exist in the replicated tessellation", key.1, key.2, area));
                    }
                }
            }
        }
        for ((j, b), ra) in &rep_faces {
            if !infos[*j].as_ref().map_or(true, |x| x.well) {
                continue;
            }
            if !fm.contains_key(&(i, *j, *b)) && *ra > thr + tola {
                return Err(format!("cell {i}: the replicated tessellation has a face towards {j} in block {:?} (area {:e}) that the periodic tessellation lacks", b, ra));
            }
        }
    }
    // --- (d) metamorphic translation
    let t = [c.aux_f.first().copied().unwrap_or(0.), c.aux_f.get(1).copied().unwrap_or(0.), c.aux_f.get(2).copied().unwrap_or(0.)];
    let mut tr = c.clone();
    tr.aux_f.clear();
    let mut crossed = 0;
    let mut wrap: Vec<[i32; 3]> = vec![[0; 3]; n];
    for (i, g) in tr.gens.iter_mut().enumerate() {
        for ax in 0..d {
            let mut x = g[ax] + t[ax] * w[ax];
            let mut k = 0;
            while x >= a[ax] + w[ax] {
                x -= w[ax];
                k -= 1;
            }
            while x < a[ax] {
                x += w[ax];
                k += 1;
            }
            x = x.max(a[ax]).min(a[ax] + w[ax]);
            g[ax] = x;
            wrap[i][ax] = k;
            if k != 0 {
                crossed += 1;
            }
        }
    }
    let mut translated_ok = false;
    let mut probe = tr.clone();
    if crate::gen::repair_distinct(&mut probe).len() == n && !crate::refcmp::unresolvable(&tr) {
        let (tvols, _, tfm) = face_map(&tr);
        translated_ok = true;
        for i in 0..n {
            let info = infos[i].as_ref().unwrap();
            let tolv = info.pos * ball_surface(d, info.r) * 8. + 1e-10 * vols[i].abs();
            cs.max("translated_volume_diff_over_tol", (tvols[i] - vols[i]).abs() / tolv);
            if (tvols[i] - vols[i]).abs() > tolv {
                return Err(format!("cell {i}: volume {:e} before and {:e} after translating all generators by {:?} widths (tol {:e})", vols[i], tvols[i], t, tolv));
            }
        }
        if !lowdim_bad {
            for (key, area) in &fm {
                let (i, j, s) = *key;
                let (ii, ij) = (infos[i].as_ref().unwrap(), infos[j].as_ref().unwrap());
                if !(ii.well && ij.well) {
                    continue;
                }
                // the image of j that neighbours i keeps its lattice offset relative to i up to
                // the wraps of the two generators
                let mut s2 = s;
                for ax in 0..3 {
                    s2[ax] = s[ax] + wrap[i][ax] - wrap[j][ax];
                }
                let tola = (ii.pos + ij.pos) * face_perimeter_bound(d, ii.r.min(ij.r)) * 8. + 1e-10 * area.abs();
                match tfm.get(&(i, j, s2)) {
                    Some(ta) => {
                        if (ta - area).abs() > tola && area.max(*ta) > thr {
                            return Err(format!("face {i} -> {j} (image {:?}): area {:e} before and {:e} after the translation (tol {:e})", s, area, ta, tola));
                        }
                        cs.count("translated_faces_compared", 1);
                    }
                    None => {
                        if *area > thr + tola {
                            return Err(format!("face {i} -> {j} (image {:?}, area {:e}) disappears when all generators are translated by {:?} widths", s, area, t));
                        }
                    }
                }
            }
        }
    } else {
        cs.count("translations_skipped_collision_or_unresolvable", 1);
    }
    let near_seam = gens.iter().any(|g| (0..d).any(|ax| (g[ax] - a[ax]) < 1e-3 * w[ax] || (a[ax] + w[ax] - g[ax]) < 1e-3 * w[ax]));
    if near_seam {
        cs.label("generator-near-seam");
    }
    if crossed > 0 && translated_ok {
        cs.label("translation-crossed-seam");
    }
    if shifted > 0 && (n <= 2 || near_seam || (crossed > 0 && translated_ok)) {
        cs.nt();
    }
    Ok(())
}

pub fn def() -> PropDef {
    PropDef {
        id: "C06",
        rule: "cases: periodic inputs from all families, dims 1-3, n from 1 (n = 1, 2 at >= 15 percent) to 24, anisotropic boxes, generators on the seam, translation vectors uniform in [-2w, 2w]^d plus seam-aligned ones; oracles: (a) differential against the library's non-periodic mode on the 3^d-fold replicated generators (central block: volume, centroid, face map neighbour block*n+j <-> (j, shift)), (c) structural: no boundary faces, every shift bitwise in {-w, 0, +w} on active axes and 0 elsewhere, never Some(0,0,0), (d) metamorphic: translating all generators (wrapped back) leaves volumes and the areas of faces matched by their translation-invariant key unchanged. non-trivial: >= 1 shifted face and (n <= 2 or a generator within 1e-3 w of the seam or the translation moved a generator across the seam); distinct by case hash.",
        strategy,
        check,
        cases: |t| t.pick(2500, 80_000),
        profiles: &["release"],
        required: &["n=1", "n=2", "dim1", "dim2", "dim3", "generator-near-seam", "translation-crossed-seam", "aspect>=64"],
        fixed: None,
        assumptions: &["valid input as in C01", "tolerances from the library's own conditioning (cellinfo)", "ill-conditioned cells, 1D/2D at coordinates > 1e10 and unresolvable arrangements exempt from face comparisons (known findings)"],
    }
}
