//! C04 — face normals point away from the left generator; cells are closed surfaces.
use crate::case::Case;
use crate::cellinfo::{ball_surface, cell_infos, face_perimeter_bound};
use crate::gen::{self, GenOpts, MaskMode};
use crate::obs;
use crate::runner::{CaseStats, PropDef, Tier};
use crate::tol;
use glam::DVec3;
use proptest::strategy::BoxedStrategy;

fn strategy(tier: Tier) -> BoxedStrategy<Case> {
    use proptest::prelude::*;
    let base = gen::case_strategy(GenOpts { max_n: tier.pick(400, 1500), big_n_weight: 1, masks: MaskMode::Mixed, max_offset_log2: 20, ..GenOpts::default() });
    // 4 % shell inputs: a cell with hundreds of faces
    // 0.7 % clump inputs: a dense clump of 1200..3000 (thorough: to 6000) generators next to a
    // few big cells (thousands of candidates that leave a cell untouched)
    prop_oneof![144 => base, 6 => gen::shell_strategy(tier.pick(400, 1500)), 1 => gen::clump_strategy(1200, tier.pick(3000, 6000))].boxed()
}

pub fn check(c: &Case, cs: &mut CaseStats) -> Result<(), String> {
    gen::classify(c, cs);
    if !gen::is_valid(c) {
        return Err("INFRA: generator produced an invalid case".into());
    }
    check_route(c, cs, false)?;
    if c.dim == 3 {
        // the same identities for the tessellation obtained through cells with stored faces
        // (face fans instead of the projection based decomposition)
        check_route(c, cs, true).map_err(|m| format!("via VoronoiIntegrator::with_faces(): {m}"))?;
        cs.label("with-faces-route");
    }
    Ok(())
}

fn check_route(c: &Case, cs: &mut CaseStats, with_faces: bool) -> Result<(), String> {
    let n = c.n();
    let d = c.d();
    let active: Vec<bool> = c.mask.clone().unwrap_or(vec![true; n]);
    let vi = obs::integrator(c, c.mask.as_deref());
    let v = if with_faces { obs::observe(&meshless_voronoi::Voronoi::from(&vi.clone().with_faces())) } else { obs::observe(&obs::build(c)) };
    let infos = cell_infos(c, &vi);
    let gens = c.eff_gens();
    let (ea, ew) = (c.eff_anchor(), c.eff_width());
    let unresolvable = crate::refcmp::unresolvable(c);
    let lowdim_bad = tol::lowdim_area_unreliable(c);
    if lowdim_bad {
        cs.label("known-finding:lowdim-large-coordinates");
    }
    let thr = tol::face_threshold(c);
    // --- per stored face
    for (k, f) in v.faces.iter().enumerate() {
        let nrm = obs::v3(f.normal);
        if (nrm.length() - 1.).abs() > 8. * tol::U {
            return Err(format!("face {k}: normal {:?} is not a unit vector (|n| - 1 = {:e})", nrm, nrm.length() - 1.));
        }
        for a in d..3 {
            if nrm[a] != 0. {
                return Err(format!("face {k}: normal {:?} has a component along an unused axis", nrm));
            }
        }
        let gl = DVec3::from_array(gens[f.left]);
        let info = infos[f.left].as_ref().ok_or_else(|| format!("face {k}: left cell {} is not constructed", f.left))?;
        let cen = obs::v3(f.centroid);
        match f.right {
            Some(r) => {
                let s = f.shift.map_or(DVec3::ZERO, DVec3::from_array);
                let dir = DVec3::from_array(gens[r]) + s - gl;
                let dist = dir.length();
                if !(nrm.dot(dir) > 0.) {
                    return Err(format!("face {k} ({} -> {r}, shift {:?}): normal {:?} does not point away from the left generator (n.(g_r + s - g_l) = {:e})", f.left, f.shift, nrm, nrm.dot(dir)));
                }
                let toln = 1e-14 + 16. * tol::U * c.scale_l() / dist;
                if (nrm - dir / dist).length() > toln {
                    return Err(format!("face {k} ({} -> {r}): normal {:?} deviates from the direction to the right generator {:?} by {:e} > {:e}", f.left, nrm, dir / dist, (nrm - dir / dist).length(), toln));
                }
                // centroid on the bisector plane
                // (the centroid of a small face is the quotient of two small numbers: its error
                // is the error of the area integral relative to the area)
                let pb = face_perimeter_bound(d, info.r);
                let tola = info.pos * pb;
                if f.area > thr && tola < 0.125 * f.area && info.well && !unresolvable && !lowdim_bad {
                    let off = (cen - (gl + 0.5 * dir)).dot(nrm).abs();
                    let tolp = info.pos + 2. * pb * tola / f.area + 8. * tol::U * c.scale_l();
                    cs.max("centroid_off_bisector_over_tol", off / tolp);
                    if off > tolp {
                        return Err(format!("face {k} ({} -> {r}): centroid {:?} is {:e} off the bisector plane (tol {:e})", f.left, cen, off, tolp));
                    }
                }
            }
            None => {
                // wall: exactly +-e_k pointing out of the box, centroid on that wall
                let mut axis = None;
                for a in 0..3 {
                    if nrm[a] != 0. {
                        if axis.is_some() || nrm[a].abs() != 1. {
                            return Err(format!("boundary face {k}: normal {:?} is not +-e_k", nrm));
                        }
                        axis = Some(a);
                    }
                }
                let a = axis.ok_or_else(|| format!("boundary face {k}: zero normal"))?;
                if c.periodic {
                    return Err(format!("boundary face {k} (normal {:?}) in a periodic tessellation", nrm));
                }
                let wall = if nrm[a] > 0. { ea[a] + ew[a] } else { ea[a] };
                // outward: from the generator through the wall
                if (wall - gl[a]) * nrm[a] < 0. {
                    return Err(format!("boundary face {k}: normal {:?} points into the box", nrm));
                }
                let pb = face_perimeter_bound(d, info.r);
                let tola = info.pos * pb;
                if f.area > thr && tola < 0.125 * f.area && info.well && !lowdim_bad {
                    let off = (cen[a] - wall).abs();
                    let tolp = info.pos + 2. * pb * tola / f.area + 8. * tol::U * c.scale_l();
                    if off > tolp {
                        return Err(format!("boundary face {k}: centroid {:?} is {:e} off the wall {wall} (tol {:e})", cen, off, tolp));
                    }
                }
            }
        }
    }
    cs.count("faces_checked", v.faces.len() as u64);
    // --- per constructed cell: closure and divergence theorem
    let mut nt = false;
    if !unresolvable && !lowdim_bad {
        for i in 0..n {
            if !active[i] {
                continue;
            }
            let info = infos[i].as_ref().unwrap();
            let cell = &v.cells[i];
            let g = DVec3::from_array(gens[i]);
            // all neighbours must be well conditioned too: a face may have been integrated from
            // the other side
            let mut well = info.well;
            let mut sum_n = DVec3::ZERO;
            let mut div = 0.;
            let mut from_right = false;
            let mut pos = info.pos;
            let mut negligible = 0.;
            for &k in &cell.face_indices {
                let f = &v.faces[k];
                let other = if f.left == i { f.right } else { Some(f.left) };
                if let Some(o) = other {
                    if let Some(oi) = infos[o].as_ref() {
                        well &= oi.well;
                        pos = pos.max(oi.pos);
                    }
                }
                let out = if f.left == i {
                    obs::v3(f.normal)
                } else {
                    from_right = true;
                    -obs::v3(f.normal)
                };
                if f.area <= thr {
                    // a negligible face (its centroid is reported as the origin when the area
                    // is not positive): contributes at most thr * R to either identity
                    negligible += 1.;
                    continue;
                }
                sum_n += f.area * out;
                div += f.area * out.dot(obs::v3(f.centroid) - g);
            }
            if !well {
                cs.count("cells_skipped_ill_conditioned", 1);
                cs.label("known-finding:ill-conditioned");
                // The split of a facet between the faces of an ill-conditioned cell (and with it
                // every single area and centroid, also what a neighbour reports for them) is the
                // known finding; the closure of the cell's OWN decomposition is not: whatever
                // point of a degenerate edge a vertex was placed on, the signed triangles fed to
                // the face integrals of this cell tile a closed surface, so the area weighted
                // normals of the faces as this cell itself integrates them (non-symmetric face
                // integrals, projection based decomposition) still sum to zero within the same
                // tolerance (measured headroom on the unchanged tree: 1e5).
                if !with_faces {
                    if let Some(cc) = vi.get_cell_at(i) {
                        let own = cc.compute_face_integrals::<(), obs::PlaneFace>(());
                        let mut sum_own = DVec3::ZERO;
                        for f in &own {
                            let p = f.integral();
                            sum_own += p.area * -cc.clipping_planes[p.plane_idx].normal();
                        }
                        let surf = ball_surface(d, info.r);
                        let tol_own = (info.pos * surf / info.r.max(1e-300) * 2. + 1e-11 * surf).max(info.pos * (2. * std::f64::consts::PI * info.r + 2.) * own.len() as f64);
                        cs.max("closure_own_faces_ill_conditioned_over_tol", sum_own.length() / tol_own);
                        if sum_own.length() > tol_own {
                            return Err(format!("cell {i} (ill-conditioned): the area weighted outward normals of the faces as the cell itself integrates them sum to {:?} (|.| = {:e} > tol {:e})", sum_own, sum_own.length(), tol_own));
                        }
                        cs.count("ill_conditioned_cells_closed_by_own_faces", 1);
                    }
                }
                continue;
            }
            let surf = ball_surface(d, info.r);
            let tol_closure = pos * surf / info.r.max(1e-300) * 2. + 1e-11 * surf;
            // closure: |sum A n| <= perimeter-like bound * position uncertainty
            let tol_closure = tol_closure.max(pos * (2. * std::f64::consts::PI * info.r + 2.) * cell.count as f64) + negligible * thr;
            cs.max("closure_over_tol", sum_n.length() / tol_closure);
            if sum_n.length() > tol_closure {
                return Err(format!("cell {i}: area weighted outward normals sum to {:?} (|.| = {:e} > tol {:e})", sum_n, sum_n.length(), tol_closure));
            }
            let vol = div / d as f64;
            let tolv = pos * surf * 16. + 1e-11 * cell.volume.abs() + negligible * thr * info.r * 2.;
            cs.max("divergence_over_tol", (vol - cell.volume).abs() / tolv);
            if (vol - cell.volume).abs() > tolv {
                return Err(format!("cell {i}: (1/d) sum A n.(c - g) = {:e} but the volume is {:e} (diff {:e} > tol {:e})", vol, cell.volume, (vol - cell.volume).abs(), tolv));
            }
            cs.count("cells_closed", 1);
            if cell.count >= d + 1 && from_right {
                nt = true;
            }
        }
    }
    if nt {
        cs.nt();
    }
    Ok(())
}

pub fn def() -> PropDef {
    PropDef {
        id: "C04",
        rule: "cases: 4% shell inputs (a generator surrounded by up to 400 / 1500 generators on a jittered Fibonacci sphere: a cell with hundreds of faces), otherwise all families x masks, dims 1-3, periodic or not, n to 400 (quick) / 1500 (thorough); oracle: per stored face |n| = 1 within 8u, zero components on unused axes, n.(g_right + shift - g_left) > 0 and n equal to that direction, wall normals exactly +-e_k pointing out of the box with the centroid on the wall, interior centroids on the bisector plane; per constructed cell (outward = n if the cell is left, -n if right): |sum A n_out| <= tol and |(1/d) sum A n_out.(c - g) - V| <= tol (divergence theorem in the active subspace). non-trivial: a closed cell with >= d+1 faces of which at least one is seen from the right; distinct by case hash. In 3D every identity is checked twice: on Voronoi::build(_partial) and on Voronoi::from(&integrator.with_faces()).",
        strategy,
        check,
        cases: |t| t.pick(5000, 200_000),
        profiles: &["release"],
        required: &["periodic", "reflective", "mask:mixed", "dim1", "dim2", "dim3", "with-faces-route", "fam:H", "fam:C"],
        fixed: None,
        assumptions: &["valid input as in C01", "cells with an ill-conditioned vertex (or neighbour), 1D/2D cases at coordinates > 1e10 and unresolvable arrangements are exempt from the closure identities (known findings)"],
    }
}
