//! C20 — auxiliary structures: uniform-grid k-nearest-neighbour search and bounding spheres.
//!
//! k-NN (`Space::{new, add_parts, knn}` through the hook `space_knn`): model = brute-force sort.
//! Ties are handled exactly: the returned list must consist of k distinct other particles, its
//! distances must be non-decreasing and equal, as a multiset, to the k smallest distances (the
//! harness evaluates the same `distance_squared`, so "equal" is bitwise).
//! Bounding spheres (`Welzl`, `Epos6`, `Epos6::bounding_sphere_of_spheres`): containment of every
//! input; Welzl's radius equal to the brute-force minimum over all support sets of 2, 3 and 4
//! points (n <= 14); Epos6 never smaller than the minimum.
use crate::case::Case;
use crate::runner::{CaseStats, PropDef, Tier};
use glam::{DMat3, DVec3};
use meshless_voronoi::geometry::Sphere;
use meshless_voronoi::verif_hooks as hooks;
use proptest::prelude::*;
use proptest::strategy::BoxedStrategy;

#[derive(Clone, Debug)]
struct Raw {
    kind: u8,
    pts: Vec<[f64; 3]>,
    p: [u32; 6],
    e: i32,
    asp: [u32; 3],
    mant: [f64; 3],
    anchor_r: [f64; 3],
    m: f64,
    frac: f64,
    kf: f64,
    radii: Vec<f64>,
}

fn below(p: f64, anchor: f64, width: f64) -> f64 {
    // largest representable position with (p - anchor) < width and >= 0
    let mut p = p.max(anchor);
    while !(p - anchor < width) {
        p = f64::from_bits(if p > 0. { p.to_bits() - 1 } else if p < 0. { p.to_bits() + 1 } else { (-f64::MIN_POSITIVE).to_bits() });
    }
    p
}

fn build(raw: Raw, tier: Tier) -> Case {
    let mut width = [0.; 3];
    let mut anchor = [0.; 3];
    for k in 0..3 {
        let a = (raw.asp[k] % tier.pick(5, 7)) as i32;
        width[k] = raw.mant[k] * 2f64.powi(raw.e + a);
        anchor[k] = match raw.p[0] % 4 {
            0 => 0.,
            1 | 2 => (raw.anchor_r[k] - 0.5) * 8. * width[k],
            _ => (raw.anchor_r[k] - 0.5) * 2f64.powi(20) * width[k],
        };
    }
    let n = raw.pts.len();
    // unit coordinates by family
    let mut ts: Vec<[f64; 3]> = Vec::with_capacity(n);
    match raw.kind % 5 {
        0 | 1 => ts.extend(raw.pts.iter().cloned()), // uniform
        2 => {
            // clusters
            let ncl = 1 + raw.p[1] as usize % 3;
            let scale = 10f64.powi(-(1 + (raw.p[2] % 6) as i32));
            for (i, t) in raw.pts.iter().enumerate() {
                if i < ncl || i % 6 == 5 {
                    ts.push(*t);
                } else {
                    let c = raw.pts[i % ncl];
                    ts.push([(c[0] + (t[0] - 0.5) * scale).clamp(0., 0.999_999), (c[1] + (t[1] - 0.5) * scale).clamp(0., 0.999_999), (c[2] + (t[2] - 0.5) * scale).clamp(0., 0.999_999)]);
                }
            }
        }
        3 => {
            // lattice (many exact distance ties, collinear / coplanar subsets)
            let k = 2 + raw.p[1] as usize % 4;
            for i in 0..n.min(k * k * k) {
                ts.push([((i % k) as f64 + 0.5) / k as f64, (((i / k) % k) as f64 + 0.5) / k as f64, ((i / (k * k)) as f64 + 0.5) / k as f64]);
            }
        }
        _ => {
            // points near one wall / in one slab (one particle per many cells elsewhere)
            for t in &raw.pts {
                ts.push([t[0] * t[0] * t[0], t[1], t[2] * 0.05]);
            }
        }
    }
    let gens: Vec<[f64; 3]> = ts
        .iter()
        .map(|t| {
            let mut g = [0.; 3];
            for k in 0..3 {
                g[k] = below(anchor[k] + t[k].clamp(0., 1.) * width[k], anchor[k], width[k]);
            }
            g
        })
        .collect();
    // a point SET: exact duplicates are dropped (by construction, keeps shrinking meaningful)
    let mut gens = gens;
    {
        let mut seen = std::collections::BTreeSet::new();
        gens.retain(|g| seen.insert([g[0].to_bits(), g[1].to_bits(), g[2].to_bits()]));
    }
    let n = gens.len();
    // grid: m cells along the widest axis (bounded so that the rings stay affordable), or a
    // cell width larger than the box
    let wmax = width.iter().cloned().fold(0., f64::max);
    let m_cap = if n <= 24 { tier.pick(16., 40.) } else { tier.pick(8., 12.) };
    let m = (1. + raw.m * m_cap).floor().min(m_cap);
    let mcw = match raw.p[3] % 8 {
        0 => wmax * (1. + 3. * raw.frac), // one cell
        _ => wmax / (m - 0.999 * raw.frac).max(0.25),
    };
    // Cost guard: the library measures rings with the SMALLEST cell width, so a search that has
    // to cover the whole box enumerates about 2 (diag / min cell width)^4 cell indices per
    // particle. The particle list is truncated so that this stays within a fixed budget.
    let (mut gens, n) = {
        let cells_min = (0..3).map(|k| width[k] / (width[k] / mcw).ceil()).fold(f64::INFINITY, f64::min);
        let diag = (width[0] * width[0] + width[1] * width[1] + width[2] * width[2]).sqrt();
        let rmax = (diag / cells_min).ceil() + 1.;
        let budget = tier.pick(3e8, 3e9);
        let n_max = ((budget / (2. * rmax.powi(4))) as usize).max(2);
        let mut g = gens;
        g.truncate(n_max.max(1));
        let n = g.len();
        (g, n)
    };
    // coincident particles (1 case in 16, n >= 3): distinct particles may share a position exactly
    // (identity is the index); a twin is then the nearest 'other particle' at distance 0. The
    // sphere clauses look at the set of distinct positions.
    let mut twins = false;
    if n >= 3 && raw.p[5] % 16 == 0 {
        let i = (raw.p[5] as usize / 16) % n;
        let j = (i + 1 + (raw.p[5] as usize / 4096) % (n - 1)) % n;
        gens[j] = gens[i];
        if n >= 6 && raw.p[5] % 32 == 0 {
            let k3 = (j + 2) % n;
            if k3 != i {
                gens[k3] = gens[i];
            }
        }
        twins = true;
    }
    let k = if n < 2 {
        0
    } else {
        match raw.p[4] % 6 {
            0 => 0,
            1 => 1,
            2 => n - 1,
            3 => (n - 1).min(1 + (raw.kf * 8.) as usize),
            _ => ((raw.kf * n as f64) as usize).min(n - 1),
        }
    };
    // with coincident particles k stays below the number of particles at OTHER positions (an
    // implementation that loses a twin then returns a wrong list instead of searching for ever:
    // a hang could only be reported as inconclusive)
    let k = if twins { k.min(n - 3).max(1) } else { k };
    let mut aux_f = vec![mcw];
    aux_f.extend(raw.radii.iter().take(n.min(40)).map(|r| r * r * wmax * 0.2));
    Case { dim: 3, periodic: false, anchor, width, gens, mask: None, aux_f, aux_i: vec![k as i64], family: format!("{}{}", ["U", "U", "K", "L", "W"][(raw.kind % 5) as usize], if twins { "+twins" } else { "" }) }
}

fn strategy(tier: Tier) -> BoxedStrategy<Case> {
    let pt = || [0.0f64..1.0, 0.0f64..1.0, 0.0f64..1.0];
    let big = tier.pick(400usize, 600);
    let pts = prop_oneof![
        3 => proptest::collection::vec(pt(), 1..=14),
        3 => proptest::collection::vec(pt(), 15..=60),
        2 => proptest::collection::vec(pt(), 61..=big),
    ];
    (
        (any::<u8>(), pts, any::<[u32; 6]>(), -12i32..=12, [0u32..7, 0u32..7, 0u32..7]),
        ([1.0f64..2.0, 1.0f64..2.0, 1.0f64..2.0], [0.0f64..1.0, 0.0f64..1.0, 0.0f64..1.0], 0.0f64..1.0, 0.0f64..1.0, 0.0f64..1.0),
        proptest::collection::vec(0.0f64..1.0, 40),
    )
        .prop_map(move |((kind, pts, p, e, asp), (mant, anchor_r, m, frac, kf), radii)| build(Raw { kind, pts, p, e, asp, mant, anchor_r, m, frac, kf, radii }, tier))
        .boxed()
}

fn circum2(a: DVec3, b: DVec3) -> (DVec3, f64) {
    let c = 0.5 * (a + b);
    (c, c.distance(a).max(c.distance(b)))
}
fn circum3(a: DVec3, b: DVec3, c: DVec3) -> Option<(DVec3, f64)> {
    // centre = a + s (b-a) + t (c-a), equidistant from a, b, c
    let (u, v) = (b - a, c - a);
    let (uu, uv, vv) = (u.dot(u), u.dot(v), v.dot(v));
    let det = uu * vv - uv * uv;
    if !(det.abs() > 1e-14 * uu * vv) {
        return None;
    }
    let s = 0.5 * (uu * vv - vv * uv) / det;
    let t = 0.5 * (vv * uu - uu * uv) / det;
    let ctr = a + s * u + t * v;
    Some((ctr, ctr.distance(a).max(ctr.distance(b)).max(ctr.distance(c))))
}
fn circum4(a: DVec3, b: DVec3, c: DVec3, d: DVec3) -> Option<(DVec3, f64)> {
    let m = DMat3::from_cols(b - a, c - a, d - a).transpose();
    let det = m.determinant();
    let scale = (b - a).length() * (c - a).length() * (d - a).length();
    if !(det.abs() > 1e-10 * scale) {
        return None;
    }
    let rhs = 0.5 * DVec3::new((b - a).length_squared(), (c - a).length_squared(), (d - a).length_squared());
    let x = m.inverse() * rhs;
    let ctr = a + x;
    Some((ctr, ctr.distance(a).max(ctr.distance(b)).max(ctr.distance(c)).max(ctr.distance(d))))
}

/// Smallest radius among the spheres through 1..4 of the points that contain all points.
fn brute_min_radius(p: &[DVec3]) -> f64 {
    let n = p.len();
    if n == 1 {
        return 0.;
    }
    let encloses = |c: DVec3, r: f64| p.iter().all(|q| q.distance(c) <= r * (1. + 1e-12) + 1e-300);
    let mut best = f64::INFINITY;
    for i in 0..n {
        for j in 0..i {
            let (c, r) = circum2(p[i], p[j]);
            if r < best && encloses(c, r) {
                best = r;
            }
            for k in 0..j {
                if let Some((c, r)) = circum3(p[i], p[j], p[k]) {
                    if r < best && encloses(c, r) {
                        best = r;
                    }
                }
                for l in 0..k {
                    if let Some((c, r)) = circum4(p[i], p[j], p[k], p[l]) {
                        if r < best && encloses(c, r) {
                            best = r;
                        }
                    }
                }
            }
        }
    }
    best
}

pub fn check_knn(c: &Case, cs: &mut CaseStats) -> Result<(), String> {
    let n = c.n();
    let k = c.aux_i[0] as usize;
    let pos = c.gens_v();
    let (anchor, width, mcw) = (c.anchor_v(), c.width_v(), c.aux_f[0]);
    let cdim = [(width.x / mcw).ceil(), (width.y / mcw).ceil(), (width.z / mcw).ceil()];
    let nn = hooks::space_knn(anchor, width, mcw, &pos, k);
    if nn.len() != n {
        return Err(format!("knn({k}) returned {} lists for {n} particles", nn.len()));
    }
    let mut tie_cases = 0u64;
    for i in 0..n {
        let got = &nn[i];
        if got.len() != k {
            return Err(format!("particle {i}: knn({k}) returned {} neighbours", got.len()));
        }
        let mut d: Vec<(f64, usize)> = (0..n).filter(|&j| j != i).map(|j| (pos[i].distance_squared(pos[j]), j)).collect();
        d.sort_by(|a, b| a.0.partial_cmp(&b.0).unwrap().then(a.1.cmp(&b.1)));
        let mut seen = std::collections::BTreeSet::new();
        let mut prev = -1.;
        for (r, &j) in got.iter().enumerate() {
            if j >= n || j == i || !seen.insert(j) {
                return Err(format!("particle {i}: neighbour list {:?} contains the particle itself, a duplicate or an invalid index (grid {:?}, k = {k})", got, cdim));
            }
            let dj = pos[i].distance_squared(pos[j]);
            if dj < prev {
                return Err(format!("particle {i}: neighbours are not in order of increasing distance at rank {r}: {:?}", got));
            }
            // distances that differ by a few ulp are ties for this purpose: the ring termination
            // bound (dist_to_face + r * width)^2 is itself rounded, so a particle sitting exactly
            // on a cell boundary (lattices) may be exchanged with one that is 1 ulp farther
            if (dj - d[r].0).abs() > 8. * f64::EPSILON * d[r].0 {
                return Err(format!(
                    "particle {i}: rank {r} neighbour is {j} at squared distance {:e}, but the {r}-th smallest squared distance is {:e} (particle {}); grid {:?} cells of width <= {:e}, box {:?}, k = {k}, n = {n}",
                    dj, d[r].0, d[r].1, cdim, mcw, c.width
                ));
            }
            prev = dj;
        }
        if k >= 1 && k < n - 1 && d[k - 1].0 == d[k].0 {
            tie_cases += 1;
        }
    }
    cs.count("knn_particles_checked", n as u64);
    cs.count("knn_particles_with_tie_at_the_cut", tie_cases);
    let multi = cdim.iter().filter(|x| **x >= 2.).count();
    if multi >= 2 && k >= 1 {
        cs.nt();
        cs.label("knn:multi-cell-grid");
    }
    let wmin = c.width.iter().cloned().fold(f64::INFINITY, f64::min);
    let wmax = c.width.iter().cloned().fold(0., f64::max);
    if wmax / wmin >= 2. && multi >= 2 && k >= 1 {
        cs.label("knn:non-cubic-box");
    }
    if k + 1 == n && n >= 2 {
        cs.label("knn:k=n-1");
    }
    if (cdim[0] * cdim[1] * cdim[2]) as usize > 4 * n {
        cs.label("knn:sparse-grid");
    }
    Ok(())
}

fn finite_sphere(s: &Sphere) -> bool {
    s.center.is_finite() && s.radius.is_finite() && s.radius >= 0.
}

pub fn check_spheres(c: &Case, cs: &mut CaseStats) -> Result<(), String> {
    // the set of distinct positions (coincident particles are one point)
    let pts = {
        let mut seen = std::collections::BTreeSet::new();
        let mut p = c.gens_v();
        p.retain(|g| seen.insert([g.x.to_bits(), g.y.to_bits(), g.z.to_bits()]));
        p
    };
    let n = pts.len();
    let scale = pts.iter().map(|p| p.abs().max_element()).fold(0., f64::max).max(c.width_v().max_element());
    let abs = 1e-11 * scale;
    // --- Epos6 over all points: containment
    let e = hooks::epos6(&pts);
    if !finite_sphere(&e) {
        return Err(format!("Epos6::bounding_sphere of {n} points is not finite: centre {:?}, radius {}", e.center, e.radius));
    }
    for (i, p) in pts.iter().enumerate() {
        if p.distance(e.center) > e.radius * (1. + 1e-9) + abs {
            return Err(format!("Epos6::bounding_sphere: point {i} {:?} lies outside (centre {:?}, radius {:e}, distance {:e})", p, e.center, e.radius, p.distance(e.center)));
        }
    }
    cs.count("epos6_point_sets", 1);
    // --- Welzl: containment (n <= 60) and minimality (n <= 14)
    let m = n.min(60);
    let sub = &pts[..m];
    let welzl = |cs: &mut CaseStats| -> Result<(), String> {
        let wz = hooks::welzl(sub);
        if !finite_sphere(&wz) {
            return Err(format!("Welzl::bounding_sphere of {m} points is not finite: centre {:?}, radius {}", wz.center, wz.radius));
        }
        for (i, p) in sub.iter().enumerate() {
            if p.distance(wz.center) > wz.radius * (1. + 1e-9) + abs {
                return Err(format!("Welzl::bounding_sphere: point {i} {:?} lies outside (centre {:?}, radius {:e}, distance {:e})", p, wz.center, wz.radius, p.distance(wz.center)));
            }
        }
        cs.count("welzl_point_sets", 1);
        if m <= 14 {
            let best = brute_min_radius(sub);
            if best.is_finite() {
                if wz.radius > best * (1. + 1e-8) + abs {
                    return Err(format!("Welzl::bounding_sphere of {m} points has radius {:e}, but a sphere of radius {:e} through 2..4 of the points contains them all: not minimal", wz.radius, best));
                }
                cs.max("welzl_radius_over_brute_minimum", if best > 0. { wz.radius / best } else { 1. });
                cs.count("welzl_minimality_checked", 1);
                if m >= 5 {
                    cs.label("spheres:minimality-n>=5");
                }
                // Epos6 on the same subset can never be smaller than the minimum
                let e2 = hooks::epos6(sub);
                if e2.radius < best * (1. - 1e-8) - abs {
                    return Err(format!("Epos6 radius {:e} is smaller than the minimal enclosing radius {:e}", e2.radius, best));
                }
            }
        }
        Ok(())
    };
    // known finding "welzl-degenerate-support" (known_findings.txt): the solver has no
    // perturbation / exact arithmetic / pivoting; on sets whose support can be (nearly)
    // degenerate - exact lattices, exactly collinear triples / coplanar quadruples, pairs much
    // closer than the extent of the set - its three- and four-point spheres are singular or ill
    // conditioned and the result may be NaN, miss points or not be minimal. Such sets (structural
    // predicate `c20-degenerate-support`, decided on the input alone) are still executed with the
    // full oracle; a failure there is counted under the known finding, a failure on any other
    // set is a violation.
    let degenerate = crate::known::predicate("c20-degenerate-support", c);
    match welzl(cs) {
        Ok(()) => {
            if degenerate {
                cs.count("welzl_degenerate_support_sets_fine", 1);
            }
        }
        Err(msg) => {
            if degenerate && msg.starts_with("Welzl::bounding_sphere") {
                cs.count("welzl_degenerate_support_sets_failing_known_finding", 1);
                cs.label("known-finding:welzl-degenerate-support");
            } else {
                return Err(msg);
            }
        }
    }
    // --- spheres of spheres
    let ns = (c.aux_f.len() - 1).min(n);
    if ns >= 1 {
        let spheres: Vec<Sphere> = (0..ns).map(|i| Sphere::new(pts[i], c.aux_f[1 + i].max(1e-9 * scale))).collect();
        let b = hooks::epos6_spheres(&spheres);
        if !finite_sphere(&b) {
            return Err(format!("Epos6::bounding_sphere_of_spheres of {ns} spheres is not finite: centre {:?}, radius {}", b.center, b.radius));
        }
        for (i, s) in spheres.iter().enumerate() {
            if s.center.distance(b.center) + s.radius > b.radius * (1. + 1e-9) + abs {
                return Err(format!(
                    "Epos6::bounding_sphere_of_spheres: sphere {i} (centre {:?}, radius {:e}) sticks out of the result (centre {:?}, radius {:e}) by {:e}",
                    s.center,
                    s.radius,
                    b.center,
                    b.radius,
                    s.center.distance(b.center) + s.radius - b.radius
                ));
            }
        }
        cs.count("sphere_sets", 1);
        if ns >= 5 {
            cs.label("spheres:of-spheres-n>=5");
        }
    }
    Ok(())
}

pub fn check(c: &Case, cs: &mut CaseStats) -> Result<(), String> {
    cs.label(format!("fam:{}", c.family.trim_end_matches("+twins")));
    if c.family.ends_with("+twins") {
        cs.label("knn:coincident-particles");
    }
    let n = c.n();
    cs.label(match n {
        1 => "n=1",
        2..=14 => "n=2..14",
        15..=60 => "n=15..60",
        _ => "n>60",
    });
    if c.aux_f.is_empty() || c.aux_i.is_empty() || n == 0 {
        return Err("INFRA: malformed case".into());
    }
    for g in &c.gens {
        for k in 0..3 {
            let rel = g[k] - c.anchor[k];
            if !(rel >= 0. && rel < c.width[k]) {
                return Err("INFRA: generator produced a particle outside the half-open box".into());
            }
        }
    }
    let t0 = std::time::Instant::now();
    check_knn(c, cs)?;
    let t1 = std::time::Instant::now();
    check_spheres(c, cs)?;
    // informational only (never part of a verdict)
    cs.count("time_knn_ms", (t1 - t0).as_millis() as u64);
    cs.count("time_spheres_ms", t1.elapsed().as_millis() as u64);
    cs.max("slowest_case_ms", t0.elapsed().as_millis() as f64);
    Ok(())
}

pub fn def() -> PropDef {
    PropDef {
        id: "C20",
        rule: "cases: boxes with per-axis widths mantissa x 2^(e + a), e in -12..12, a in 0..6 (aspect to 2^4 quick / 2^6 thorough; the particle list is truncated so that n x 2 (box diagonal / smallest cell width)^4 stays within a fixed work budget, because the library measures search rings with the smallest cell width), anchors 0 / a few widths / 2^20 widths; n = 1..400 (quick) / 600 (thorough) particles strictly inside the half-open box (uniform, clusters of size 1e-1..1e-6, exact lattices with many distance ties, a thin slab near one wall); grid of m = 1..16 (quick) / 1..40 (thorough) cells along the widest axis for n <= 24 (1..8 / 1..12 above) or one single cell; k in {0, 1, n-1, small, any}; 1 case in 16 has two or three distinct particles at bit-identical positions (a twin is the nearest other particle, at distance 0; the sphere clauses then look at the set of distinct positions). k-NN oracle: brute force; the list has k distinct other particles, non-decreasing distances, and the r-th distance equals the r-th smallest distance up to 8 ulp (handling of ties: equidistant particles may be exchanged). Spheres: Epos6 (all points) and Welzl (first <= 60 points) contain every point to 1e-9 relative; Welzl's radius <= (1 + 1e-8) x the brute-force minimum over all spheres through 2, 3, 4 of the points that contain all points (first <= 14 points); Epos6 >= that minimum; Epos6::bounding_sphere_of_spheres (<= 40 spheres with generated radii) contains every sphere. non-trivial: grid with >= 2 cells on >= 2 axes and k >= 1; distinct by case hash; sub-labels non-cubic box, sparse grid, k = n-1, minimality with n >= 5.",
        strategy,
        check,
        cases: |t| t.pick(12_000, 200_000),
        profiles: &["release"],
        required: &["knn:multi-cell-grid", "knn:non-cubic-box", "knn:sparse-grid", "knn:k=n-1", "knn:coincident-particles", "spheres:minimality-n>=5", "spheres:of-spheres-n>=5", "n=1"],
        fixed: None,
        assumptions: &["Welzl::bounding_sphere_of_spheres is unimplemented!() by design and never called", "Welzl failures on sets with (nearly) degenerate support (structural predicate c20-degenerate-support on the input: exact lattice, exactly collinear triple / coplanar quadruple, a pair closer than 1e-3 of the extent) are the known finding welzl-degenerate-support: executed with the full oracle, failures counted (welzl_degenerate_support_sets_failing_known_finding), never a verdict; on every other set a Welzl failure is a violation", "the verdict never depends on hash-map iteration order (only the returned sphere is judged)"],
    }
}
