use crate::runner::PropDef;
pub mod c01;
pub mod c02;
pub mod c03;
pub mod c04;
pub mod c05;
pub mod c06;
pub mod c07;
pub mod c08;
pub mod c09;
pub mod c10;
pub mod c11;
pub mod c12;
pub mod c13;
pub mod c15;
pub mod c16;
pub mod c17;
pub mod c18;
pub mod c19;
pub mod c20;

pub fn all() -> Vec<PropDef> {
    vec![c01::def(), c02::def(), c03::def(), c04::def(), c05::def(), c06::def(), c07::def(), c08::def(), c09::def(), c10::def(), c11::def(), c12::def(), c13::def(), c15::def(), c16::def(), c17::def(), c18::def(), c19::def(), c20::def()]
}
pub fn find(id: &str) -> Option<PropDef> {
    all().into_iter().find(|d| d.id == id)
}
