use crate::runner::PropDef;
pub mod c01;
pub mod c02;
pub mod c05;

pub fn all() -> Vec<PropDef> {
    vec![c01::def(), c02::def(), c05::def()]
}
pub fn find(id: &str) -> Option<PropDef> {
    all().into_iter().find(|d| d.id == id)
}
