//! C09 — results are a pure function of the input, independent of the thread schedule.
//!
//! What a generated check can own of the schedule quantifier: the pool size (1 .. 64 threads,
//! explicit rayon pools), repetition, and a seeded per-cell busy-wait injected through the hook
//! `set_jitter`, which turns the completion order of the parallel cell loop into a seeded
//! pseudo-random permutation (logged, so the evidence states how many distinct completion orders
//! were exercised). Oracle: the bit-exact dump of everything the library returns (cells, faces in
//! stored order, connectivity, every integral vector incl. the *_with_data variants, vertices and
//! planes of all convex cells, with_faces in 3D) must equal the dump produced by the SEQUENTIAL
//! build of the library (a differently built copy of this binary, no scheduler at all).
use crate::case::Case;
use crate::gen::{self, GenOpts, MaskMode};
use crate::runner::{CaseStats, PropDef, Tier};
use crate::serve;
use meshless_voronoi::verif_hooks as hooks;
use proptest::prelude::*;
use proptest::strategy::BoxedStrategy;
use serde_json::json;
use std::cell::RefCell;
use std::collections::BTreeMap;

const ALL_THREADS: [usize; 9] = [1, 2, 3, 4, 7, 8, 16, 32, 64];

fn strategy(tier: Tier) -> BoxedStrategy<Case> {
    let base = gen::case_strategy(GenOpts { max_n: tier.pick(700, 4000), big_n_weight: 6, masks: MaskMode::Mixed, max_offset_log2: 12, ..GenOpts::default() });
    (base, any::<u32>(), any::<u32>())
        .prop_map(|(mut c, a, b)| {
            c.aux_i = vec![a as i64, b as i64];
            c
        })
        .boxed()
}

thread_local! {
    static POOLS: RefCell<BTreeMap<usize, rayon_core::ThreadPool>> = RefCell::new(BTreeMap::new());
}

fn in_pool<T: Send>(threads: usize, f: impl FnOnce() -> T + Send) -> Result<T, String> {
    POOLS.with(|p| {
        let mut p = p.borrow_mut();
        if !p.contains_key(&threads) {
            let pool = rayon_core::ThreadPoolBuilder::new().num_threads(threads).build().map_err(|e| format!("INFRA: cannot build a pool of {threads} threads: {e}"))?;
            p.insert(threads, pool);
        }
        Ok(p[&threads].install(f))
    })
}

pub fn check(c: &Case, cs: &mut CaseStats) -> Result<(), String> {
    gen::classify(c, cs);
    if !gen::is_valid(c) {
        return Err("INFRA: generator produced an invalid case".into());
    }
    if c.aux_i.len() < 2 {
        return Err("INFRA: aux_i too short".into());
    }
    let tier_thorough = std::env::var("MVV_TIER").map_or(false, |t| t == "thorough");
    let n = c.n();
    // ---- the reference: the sequential build (no rayon in the library at all)
    let req = json!({ "case": c.to_json() });
    let seq = serve::ask("seq", 1, &req)?;
    if let Some(p) = seq.get("panic") {
        return Err(format!("panic: {} (in the sequential build)", p.as_str().unwrap_or("?")));
    }
    if let Some(e) = seq.get("error") {
        return Err(format!("INFRA: sequential build: {e}"));
    }
    let want = serve::parse_digests(&seq["sections"]);
    if want.is_empty() {
        return Err("INFRA: the sequential build returned no sections".into());
    }
    // ---- pool sizes: 1, 2, 16 always, two more picked by the case (all nine in the thorough tier)
    let mut threads: Vec<usize> = vec![1, 2, 16];
    let extra = [3usize, 4, 7, 8, 32, 64];
    threads.push(extra[c.aux_i[0] as usize % extra.len()]);
    threads.push(extra[(c.aux_i[0] as usize / 7 + 1) % extra.len()]);
    if tier_thorough {
        threads = ALL_THREADS.to_vec();
    }
    threads.sort();
    threads.dedup();
    let s1 = (c.aux_i[1] as u64) | 1;
    // cost guard (a pure function of the case: the number of exact-predicate calls of the
    // sequential build): degenerate inputs whose every clip is decided exactly cost seconds
    // per build; the quick tier runs them on a reduced matrix (2 and 16 threads, one plain and
    // one jittered run)
    let exact_calls = seq["exact"][0].as_u64().unwrap_or(0);
    let heavy = !tier_thorough && exact_calls > 400_000;
    if heavy {
        threads = vec![2, 16];
        cs.label("heavy-case-reduced-matrix");
    }
    let seeds: Vec<u64> = if heavy {
        vec![s1]
    } else if tier_thorough { vec![0, s1, s1.rotate_left(17) | 1, s1.rotate_left(31) | 1, s1.wrapping_mul(0x9E37_79B9) | 1] } else { vec![0, s1, s1.rotate_left(17) | 1] };
    let mut scrambled = false;
    let mut orders = std::collections::BTreeSet::new();
    for &t in &threads {
        for &seed in &seeds {
            let reps = if seed == 0 { 2 } else { 1 };
            for rep in 0..reps {
                hooks::set_jitter(seed);
                let got = in_pool(t, || serve::digests(&serve::sections(c)));
                let order = hooks::completion_order();
                hooks::set_jitter(0);
                let got = got?;
                if let Some(d) = serve::first_difference(&want, &got) {
                    return Err(format!("{t} worker threads, jitter seed {seed}, run {rep}: the result differs from the sequential build: {d}"));
                }
                cs.count("parallel_runs_compared", 1);
                if seed != 0 && !order.is_empty() {
                    let head: Vec<usize> = order.iter().copied().take(n).collect();
                    let sorted = head.windows(2).all(|w| w[0] <= w[1]);
                    if !sorted && t >= 2 && n >= 4 * t {
                        scrambled = true;
                    }
                    let mut h = 0xcbf2_9ce4_8422_2325u64;
                    for x in &order {
                        h ^= *x as u64;
                        h = h.wrapping_mul(0x100_0000_01B3);
                    }
                    orders.insert(h);
                }
            }
        }
    }
    cs.count("distinct_completion_orders", orders.len() as u64);
    if scrambled {
        cs.nt();
        cs.label("scrambled-completion-order");
    }
    if threads.iter().any(|&t| t >= 32) {
        cs.label("pool>=32");
    }
    Ok(())
}

pub fn def() -> PropDef {
    PropDef {
        id: "C09",
        rule: "cases: all families x masks, dims 1-3, periodic or not, n to 700 (quick) / 4000 (thorough), 45% of the cases with n > 40. Per case: the sequential build of the library (separate binary, cargo feature rayon off) produces the reference dump; the default build is then run inside explicit rayon pools of 1, 2, 16 and two more of {3, 4, 7, 8, 32, 64} threads (all nine sizes in the thorough tier), each with jitter off (twice) and with 2 (thorough: 4) seeded jitter settings of the hook set_jitter (a busy-wait of pseudo-random length per cell, so that cells complete in a seeded pseudo-random order; the observed order is logged); quick tier only: inputs whose sequential build needs more than 400 000 exact-predicate calls (a pure function of the input) run on a reduced matrix of 2 and 16 threads with one jittered run each (label heavy-case-reduced-matrix). oracle: bitwise equality, section by section, of: the compact tessellation built directly and through the integrator (cells, faces in stored order, connectivity), cell / face / symmetric face integrals, the three *_with_data variants, vertices and planes of every convex cell, and all of it again through with_faces() in 3D. non-trivial: some run with >= 2 threads, n >= 4 x threads, jitter armed and a logged completion order that is not the index order; evidence counts the distinct completion orders observed; distinct by case hash.",
        strategy,
        check,
        cases: |t| t.pick(400, 6000),
        profiles: &["release"],
        required: &["scrambled-completion-order", "pool>=32", "mask:mixed", "dim1", "dim2", "dim3", "periodic"],
        fixed: None,
        assumptions: &["rayon's work-stealing decisions cannot be enumerated from a test; pool size, repetition and seeded per-cell delays perturb them, and the comparison is always against a build without any scheduler", "the jitter hook only delays the per-cell closures of the two build loops; the compute_* loops are exercised under the pool sizes and repetitions only"],
    }
}
