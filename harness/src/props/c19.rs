//! C19 — public geometry helpers satisfy their defining equations.
use crate::case::Case;
use crate::runner::{CaseStats, PropDef, Tier};
use glam::DVec3;
use meshless_voronoi::geometry::{intersect_planes, signed_area_tri, signed_volume_tet, Plane, Sphere};
use proptest::prelude::*;
use proptest::strategy::BoxedStrategy;

fn strategy(_tier: Tier) -> BoxedStrategy<Case> {
    (proptest::collection::vec(-1.0f64..1.0, 36), -3i32..=6, 0u8..4)
        .prop_map(|(v, e, mode)| {
            let mut c = Case::default();
            c.gens = vec![[0.5; 3]];
            c.aux_f = v;
            c.aux_i = vec![e as i64, mode as i64];
            c.family = "geom".into();
            c
        })
        .boxed()
}

fn v3(f: &[f64], i: usize, scale: f64) -> DVec3 {
    // deliberately asymmetric: no equal or zero components
    let x = DVec3::new(f[3 * i], f[3 * i + 1], f[3 * i + 2]);
    let x = x + DVec3::new(0.013, -0.027, 0.041) * (1. + i as f64);
    x * scale
}

pub fn check(c: &Case, cs: &mut CaseStats) -> Result<(), String> {
    let f = &c.aux_f;
    if f.len() < 36 {
        return Err("INFRA: short case".into());
    }
    let scale = 10f64.powi(c.aux_i[0] as i32);
    let mode = c.aux_i[1];
    let asym = (0..12).all(|i| {
        let p = v3(f, i, 1.);
        p.x != p.y && p.y != p.z && p.x != p.z && p.x != 0. && p.y != 0. && p.z != 0.
    });
    // ---------------------------------------------------------------- planes
    let mk_plane = |i: usize, unit: bool| {
        let n = v3(f, i, 1.);
        let n = if unit { n.normalize() } else { n * (0.5 + f[i].abs() * 3.) };
        Plane::new(n, v3(f, i + 3, scale))
    };
    let unit = mode % 2 == 0;
    let (p0, p1, p2) = (mk_plane(0, unit), mk_plane(1, unit), mk_plane(2, unit));
    let un = |p: &Plane| p.n.normalize();
    let det = un(&p0).cross(un(&p1)).dot(un(&p2)).abs();
    let mag = scale.max(1.);
    if det >= 1e-3 {
        let x = intersect_planes(&p0, &p1, &p2);
        for (k, p) in [&p0, &p1, &p2].iter().enumerate() {
            let r = un(p).dot(x - p.p).abs();
            let tol = 1e-12 * mag / det;
            if !(r <= tol) {
                return Err(format!("intersect_planes: result {:?} is {:e} off plane {k} (tol {:e})", x, r, tol));
            }
        }
        cs.count("intersect_planes", 1);
    }
    // project_onto: lands on the plane, moves along n, idempotent - for unit normals (how the
    // library itself uses it) and, in the odd modes, for normals of any non-zero length (a plane
    // is "a normal vector and a point"; the implementation divides by n.n)
    let q = v3(f, 6, scale);
    {
        let pu = Plane::new(p0.n, p0.p);
        let nu = un(&p0);
        let y = pu.project_onto(q);
        if !unit {
            cs.count("project_onto_non_unit_normal", 1);
        }
        let r = nu.dot(y - pu.p).abs();
        if !(r <= 1e-12 * mag) {
            return Err(format!("project_onto: {:?} is {:e} off the plane", y, r));
        }
        let along = (y - q).cross(nu).length();
        if !(along <= 1e-12 * mag) {
            return Err(format!("project_onto: displacement {:?} is not along the normal {:?}", y - q, pu.n));
        }
        let yy = pu.project_onto(y);
        if !(yy.distance(y) <= 1e-12 * mag) {
            return Err(format!("project_onto is not idempotent: {:?} -> {:?}", y, yy));
        }
        cs.count("project_onto", 1);
    }
    // project_onto_intersection: on both planes, displacement perpendicular to the line
    {
        let (a, b) = (Plane::new(p0.n, p0.p), Plane::new(p1.n, p1.p));
        let (an, bn) = (un(&p0), un(&p1));
        let s = an.cross(bn).length();
        if s >= 1e-2 {
            let y = a.project_onto_intersection(&b, q);
            let tol = 1e-11 * mag / (s * s);
            if !(an.dot(y - a.p).abs() <= tol && bn.dot(y - b.p).abs() <= tol) {
                return Err(format!("project_onto_intersection: {:?} is not on both planes ({:e}, {:e}; tol {:e})", y, an.dot(y - a.p), bn.dot(y - b.p), tol));
            }
            let line = an.cross(bn).normalize();
            if !((y - q).dot(line).abs() <= tol) {
                return Err(format!("project_onto_intersection: displacement {:?} has a component {:e} along the line", y - q, (y - q).dot(line)));
            }
            let yy = a.project_onto_intersection(&b, y);
            if !(yy.distance(y) <= tol) {
                return Err(format!("project_onto_intersection is not idempotent: {:?} -> {:?}", y, yy));
            }
            // symmetric in the two planes
            let z = b.project_onto_intersection(&a, q);
            if !(z.distance(y) <= tol) {
                return Err(format!("project_onto_intersection depends on the order of the planes: {:?} vs {:?}", y, z));
            }
            cs.count("project_onto_intersection", 1);
        }
    }
    // ---------------------------------------------------------------- signed measures
    let (a, b, cc, d) = (v3(f, 7, scale), v3(f, 8, scale), v3(f, 9, scale), v3(f, 10, scale));
    let edge = [a.distance(b), a.distance(cc), a.distance(d), b.distance(cc), b.distance(d), cc.distance(d)].into_iter().fold(0., f64::max);
    let vol = signed_volume_tet(a, b, cc, d);
    let nondeg = vol.abs() / edge.powi(3) >= 1e-4;
    if nondeg {
        let tol = 1e-12 * edge.powi(3);
        // antisymmetric under transpositions, invariant under even permutations
        if !((signed_volume_tet(b, a, cc, d) + vol).abs() <= tol && (signed_volume_tet(a, cc, b, d) + vol).abs() <= tol && (signed_volume_tet(a, b, d, cc) + vol).abs() <= tol) {
            return Err("signed_volume_tet is not antisymmetric under a swap of two vertices".into());
        }
        if !((signed_volume_tet(b, cc, a, d) - vol).abs() <= tol) {
            return Err("signed_volume_tet is not invariant under a cyclic permutation of the base".into());
        }
        // magnitude: independent Cayley-Menger-free evaluation via base area x height
        let nrm = (b - a).cross(cc - a);
        let indep = nrm.length() * 0.5 * ((d - a).dot(nrm.normalize())).abs() / 3.;
        if !((vol.abs() - indep).abs() <= 1e-11 * edge.powi(3)) {
            return Err(format!("signed_volume_tet magnitude {:e} != base x height / 3 = {:e}", vol.abs(), indep));
        }
        // documented sign: positive iff v0, v1, v2 counterclockwise as seen from v3
        let ccw_from_d = (b - a).cross(cc - a).dot(d - a) > 0.;
        if (vol > 0.) != ccw_from_d {
            return Err(format!("signed_volume_tet sign {:e} contradicts the documented convention (counterclockwise seen from v3: {ccw_from_d})", vol));
        }
        // signed_area_tri
        let ar = signed_area_tri(a, b, cc, d);
        let heron = {
            let (x, y, z) = (a.distance(b), b.distance(cc), cc.distance(a));
            let s = 0.5 * (x + y + z);
            (s * (s - x) * (s - y) * (s - z)).max(0.).sqrt()
        };
        if !((ar.abs() - heron).abs() <= 1e-9 * edge * edge) {
            return Err(format!("signed_area_tri magnitude {:e} != Heron {:e}", ar.abs(), heron));
        }
        if (ar > 0.) != ccw_from_d {
            return Err(format!("signed_area_tri sign {:e} contradicts 'positive iff counterclockwise as seen from t' ({ccw_from_d})", ar));
        }
        if !((signed_area_tri(b, a, cc, d) + ar).abs() <= 1e-12 * edge * edge) {
            return Err("signed_area_tri is not antisymmetric under a swap of two vertices".into());
        }
        cs.count("signed_measures", 1);
    }
    // ---------------------------------------------------------------- spheres
    {
        let s2 = Sphere::from_two_points(a, b);
        let tol = 1e-12 * mag;
        if !(s2.center.distance(0.5 * (a + b)) <= tol && (s2.center.distance(a) - s2.radius).abs() <= tol && (s2.center.distance(b) - s2.radius).abs() <= tol) {
            return Err(format!("from_two_points({:?}, {:?}) = centre {:?} radius {:e}", a, b, s2.center, s2.radius));
        }
        let tri_area = (b - a).cross(cc - a).length() * 0.5;
        if tri_area / (edge * edge) >= 1e-3 {
            let s3 = Sphere::from_three_points(a, b, cc);
            let cond = edge * edge / tri_area;
            let tol = 1e-11 * mag * cond * cond;
            for p in [a, b, cc] {
                if !((s3.center.distance(p) - s3.radius).abs() <= tol) {
                    return Err(format!("from_three_points: {:?} is at distance {:e} from the centre, radius {:e}", p, s3.center.distance(p), s3.radius));
                }
            }
            let nrm = (b - a).cross(cc - a).normalize();
            if !((s3.center - a).dot(nrm).abs() <= tol) {
                return Err(format!("from_three_points: centre {:?} is not in the plane of the points (off by {:e})", s3.center, (s3.center - a).dot(nrm)));
            }
            cs.count("sphere3", 1);
        }
        // thin triangles (affinely independent, badly conditioned): smallest angle theta =
        // 1e-1 .. 1e-8 rad, as a needle (two points close together) or flat (one point almost on
        // the segment between the other two), every argument order. A sphere through three
        // points is determined up to a relative error of about u / sin(theta) (the circumradius of
        // the perturbed triangle); tolerance 1e-12 / sin(theta) relative to the radius.
        {
            let u = (b - a).normalize();
            let w0 = (cc - a) - (cc - a).dot(u) * u;
            if w0.length() > 1e-3 * (cc - a).length() {
                let w = w0.normalize();
                let theta = 10f64.powf(-1. - 7. * f[33].abs().min(1.));
                let len = edge;
                let flat = mode % 4 >= 2;
                // needle: apex angle theta at p0; flat: angle pi - theta at p1
                let p0 = a;
                let (p1, p2) = if flat {
                    (a + 0.5 * len * (1. + 0.3 * f[32]) * u + 0.5 * len * theta * w, a + len * u)
                } else {
                    (a + len * u, a + len * (1. + 0.3 * f[32]) * (theta.cos() * u + theta.sin() * w))
                };
                let tol_rel = 1e-12 / theta.sin() + 1e-13;
                for (x, y, z) in [(p0, p1, p2), (p1, p2, p0), (p2, p0, p1), (p1, p0, p2)] {
                    let s3 = Sphere::from_three_points(x, y, z);
                    if !(s3.radius.is_finite() && s3.radius > 0.) {
                        return Err(format!("from_three_points on a thin triangle (smallest angle {:e}) returns radius {}", theta, s3.radius));
                    }
                    let nrm = (y - x).cross(z - x).normalize();
                    let mut worst: f64 = ((s3.center - x).dot(nrm) / s3.radius).abs();
                    for p in [x, y, z] {
                        worst = worst.max(((s3.center.distance(p) - s3.radius) / s3.radius).abs());
                    }
                    cs.max("sphere3_thin_residual_over_tol", worst / tol_rel);
                    if !(worst <= tol_rel) {
                        return Err(format!(
                            "from_three_points({:?}, {:?}, {:?}) (thin triangle, smallest angle {:e} rad, {}): the points / the plane miss the sphere (centre {:?}, radius {:e}) by {:e} of the radius (tol {:e})",
                            x, y, z, theta, if flat { "flat" } else { "needle" }, s3.center, s3.radius, worst, tol_rel
                        ));
                    }
                }
                cs.count("sphere3_thin", 1);
            }
        }
        if nondeg {
            let s4 = Sphere::from_four_points(a, b, cc, d);
            let cond = edge.powi(3) / vol.abs();
            let tol = 1e-10 * (mag + a.length()) * cond * cond;
            for p in [a, b, cc, d] {
                if !((s4.center.distance(p) - s4.radius).abs() <= tol) {
                    return Err(format!("from_four_points: {:?} is at distance {:e} from the centre, radius {:e} (tol {:e})", p, s4.center.distance(p), s4.radius, tol));
                }
            }
            cs.count("sphere4", 1);
            // from_boundary_points dispatches by length
            let disp = [Sphere::from_boundary_points(&[a]), Sphere::from_boundary_points(&[a, b]), Sphere::from_boundary_points(&[a, b, cc]), Sphere::from_boundary_points(&[a, b, cc, d])];
            let s3 = Sphere::from_three_points(a, b, cc);
            let same = |x: &Sphere, y: &Sphere| x.center == y.center && x.radius == y.radius;
            if !(disp[0].center == a && disp[0].radius == 0. && same(&disp[1], &s2) && same(&disp[2], &s3) && same(&disp[3], &s4)) {
                return Err("from_boundary_points does not dispatch to the constructor for its number of points".into());
            }
            if Sphere::from_boundary_points(&[]).radius != 0. {
                return Err("from_boundary_points(&[]) is not the empty sphere".into());
            }
        }
        // extend: a sphere of positive radius, a single point (radius exactly 0, as built by
        // from_boundary_points(&[p]) and by Sphere::new(p, 0.)) and a two-point sphere
        let x = v3(f, 6, scale) * (0.2 + 2. * f[34].abs());
        let p1 = v3(f, 11, scale);
        let subjects = [
            ("sphere", Sphere::new(p1, scale * (0.1 + f[35].abs()))),
            ("single-point sphere (from_boundary_points)", Sphere::from_boundary_points(&[p1])),
            ("single-point sphere (new(p, 0))", Sphere::new(v3(f, 7, scale), 0.)),
            ("two-point sphere", Sphere::from_boundary_points(&[p1, v3(f, 8, scale)])),
        ];
        for (what, s) in subjects {
            let e = s.clone().extend(x);
            let tol = 1e-9 * (mag + s.radius);
            let dist = x.distance(s.center);
            // "contains" by the definition of a closed ball (a single point contains itself only)
            let inside = dist <= s.radius * (1. - 1e-9);
            let outside = dist >= s.radius * (1. + 1e-9) && dist > 0.;
            if inside {
                if !(e.center == s.center && e.radius == s.radius) {
                    return Err(format!("extend changed a {what} that already contains the point"));
                }
                cs.count("extend_contained", 1);
            } else if outside {
                if !((e.center.distance(x) - e.radius).abs() <= tol) {
                    return Err(format!("extend of a {what}: the new point is not on the new sphere (distance {:e}, radius {:e})", e.center.distance(x), e.radius));
                }
                if !((e.radius - 0.5 * (s.radius + dist)).abs() <= tol) {
                    return Err(format!("extend of a {what} (centre {:?}, radius {:e}) by {:?}: new radius {:e} != (r + |x - c|) / 2 = {:e} (not the smallest sphere containing both)", s.center, s.radius, x, e.radius, 0.5 * (s.radius + dist)));
                }
                // old sphere internally tangent: |c' - c| + r = r'
                if !((e.center.distance(s.center) + s.radius - e.radius).abs() <= tol) {
                    return Err(format!("extend of a {what}: the old sphere is not internally tangent to the new one ({:e} + {:e} vs {:e})", e.center.distance(s.center), s.radius, e.radius));
                }
                cs.count("extend_outside", 1);
                if s.radius == 0. {
                    cs.count("extend_single_point", 1);
                }
            }
        }
        // a single point extended by itself stays that point
        let sp = Sphere::from_boundary_points(&[p1]).extend(p1);
        if !(sp.center == p1 && sp.radius == 0.) {
            return Err(format!("extend of a single-point sphere by its own point gives centre {:?} radius {:e}", sp.center, sp.radius));
        }
    }
    if asym {
        cs.nt();
    }
    Ok(())
}

pub fn def() -> PropDef {
    PropDef {
        id: "C19",
        rule: "cases: 36 random reals per case combined into planes (unit and non-unit normals, |det| of the unit normals >= 1e-3), points (tetrahedron volume / edge^3 >= 1e-4, triangle area / edge^2 >= 1e-3), spheres and extension points, magnitudes 1e-3 .. 1e6, coordinates deliberately asymmetric (offsets that make all components distinct and non-zero); oracle = the defining equations with tolerances scaled by magnitude and conditioning: intersection on all three planes; projections on the plane / on both planes, along the normal / perpendicular to the line, idempotent, symmetric; signed volume and area antisymmetric, sign per the documented counter-clockwise convention, magnitude equal to base x height / 3 and Heron; spheres through their points, three-point centre in the plane, two-point centre at the midpoint; three-point spheres also on thin triangles (smallest angle 1e-1..1e-8 rad, needle and flat, every argument order; points on the sphere and centre in the plane to 1e-12 / sin(theta) of the radius); extend (of a sphere of positive radius, of a single-point sphere of radius exactly 0 built either way, of a two-point sphere): unchanged if contained, else new point on the sphere, radius (r + |x-c|)/2, old sphere internally tangent; a single point extended by itself is unchanged; from_boundary_points dispatches by length. non-trivial: all coordinates pairwise distinct and non-zero; distinct by case hash.",
        strategy,
        check,
        cases: |t| t.pick(40_000, 5_000_000),
        profiles: &["release"],
        required: &["intersect_planes", "project_onto_non_unit_normal", "project_onto_intersection", "signed_measures", "sphere3", "sphere3_thin", "sphere4", "extend_outside", "extend_contained", "extend_single_point"],
        fixed: None,
        assumptions: &["non-degenerate arguments as quantified by the property (thresholds above)"],
    }
}
