//! C15 — extracted vertices and face polygons form a valid convex polytope.
//!
//! Validity predicates (both directions) on every cell of `VoronoiIntegrator::with_faces()` in 3D,
//! a stateful part (generated sequences of with_faces / discard_faces / clone / integrals /
//! accessors on single cells, model = "has faces") and the rejection of 1D / 2D.
use crate::case::Case;
use crate::gen::{self, GenOpts, MaskMode};
use crate::obs::{self, PlaneFace};
use crate::runner::{CaseStats, PropDef, Tier};
use crate::tol;
use glam::DVec3;
use meshless_voronoi::integrals::{AreaIntegral, VolumeCentroidIntegral};
use meshless_voronoi::{ConvexCell, WithFaces, WithoutFaces};
use proptest::prelude::*;
use proptest::strategy::BoxedStrategy;
use std::collections::BTreeMap;

fn strategy(tier: Tier) -> BoxedStrategy<Case> {
    let three = gen::case_strategy(GenOpts { dims: vec![3], max_n: tier.pick(60, 150), big_n_weight: 2, masks: MaskMode::Mixed, max_offset_log2: 16, ..GenOpts::default() });
    let low = gen::case_strategy(GenOpts { dims: vec![1, 2], max_n: 12, masks: MaskMode::Mixed, ..GenOpts::default() });
    // (shell inputs: cells with hundreds of faces / planes / vertices)
    let shell = gen::shell_strategy(tier.pick(400, 1500));
    (prop_oneof![17 => three, 2 => low, 1 => shell], proptest::collection::vec(0u8..6, 0..12), any::<u32>())
        .prop_map(|(mut c, ops, pick)| {
            c.aux_i = std::iter::once(pick as i64).chain(ops.into_iter().map(|o| o as i64)).collect();
            c
        })
        .boxed()
}

fn bits3(v: DVec3) -> [u64; 3] {
    [v.x.to_bits(), v.y.to_bits(), v.z.to_bits()]
}

/// Everything the accessors of a cell with faces return, bit exact.
fn face_snapshot(cell: &ConvexCell<WithFaces>) -> Vec<u64> {
    let mut d = vec![cell.face_count() as u64];
    for f in 0..cell.face_count() {
        d.push(cell.face_vertex_count(f) as u64);
        d.extend(cell.face_vertices(f).iter().map(|&v| v as u64));
        d.push(cell.neighbour(f).map_or(u64::MAX, |r| r as u64));
        match cell.shift(f) {
            None => d.push(0),
            Some(s) => {
                d.push(1);
                d.extend(bits3(s));
            }
        }
        d.extend(bits3(cell.clipping_plane(f).n));
        d.extend(bits3(cell.clipping_plane(f).p));
    }
    d
}

fn integral_snapshot<M: meshless_voronoi::ConvexCellMarker + 'static>(cell: &ConvexCell<M>) -> Vec<u64> {
    let vc = cell.compute_cell_integral::<(), VolumeCentroidIntegral>(());
    let mut d = vec![vc.volume.to_bits()];
    d.extend(bits3(vc.centroid));
    for f in cell.compute_face_integrals::<(), AreaIntegral>(()) {
        d.push(f.right().map_or(u64::MAX, |r| r as u64));
        d.push(f.integral().area.to_bits());
    }
    d
}

/// The polytope predicates for one cell.
fn check_polytope(c: &Case, plain: &ConvexCell<WithoutFaces>, cell: &ConvexCell<WithFaces>, cs: &mut CaseStats) -> Result<bool, String> {
    let i = cell.idx;
    let kappas = obs::vertex_kappa(cell);
    let kmax = kappas.iter().cloned().fold(1., f64::max);
    let well = kmax <= 1e3;
    let eps = tol::eps_pos(c);
    let nv = cell.vertices.len();
    let nf = cell.face_count();
    let r_cell = cell.vertices.iter().map(|v| v.loc.distance(cell.loc)).fold(0., f64::max);
    let s_min = cell.clipping_planes.iter().filter(|p| p.right_idx.is_some()).map(|p| 2. * (p.plane.p - cell.loc).dot(p.plane.n).abs()).fold(f64::INFINITY, f64::min);
    let snap = if s_min.is_finite() { tol::snap_theta(c, s_min) * r_cell } else { 0. };
    // ---- vertices: on their three planes, inside all half spaces
    for (k, v) in cell.vertices.iter().enumerate() {
        if v.dual[0] == v.dual[1] || v.dual[1] == v.dual[2] || v.dual[0] == v.dual[2] {
            return Err(format!("cell {i}: vertex {k} lists a plane twice: {:?}", v.dual));
        }
        if !v.loc.is_finite() {
            return Err(format!("cell {i}: vertex {k} is not finite"));
        }
        if kappas[k] <= 1e3 {
            // (the displacement of a plane under the snapping of a close pair is amplified by the
            // conditioning of the vertex just like the rounding error is)
            let tolv = kappas[k] * (64. * eps + snap);
            for &p in &v.dual {
                let pl = &cell.clipping_planes[p].plane;
                let off = pl.n.dot(v.loc - pl.p).abs();
                if off > tolv {
                    return Err(format!("cell {i}: vertex {k} {:?} is {:e} off its plane {p} (tol {:e})", v.loc, off, tolv));
                }
            }
            for (p, hs) in cell.clipping_planes.iter().enumerate() {
                let inside = hs.plane.n.dot(v.loc - hs.plane.p);
                if inside < -(tolv + 64. * eps) {
                    return Err(format!("cell {i}: vertex {k} {:?} lies {:e} outside the half space {p} (towards {:?})", v.loc, -inside, hs.right_idx));
                }
            }
            cs.count("vertices_checked", 1);
        }
    }
    // ---- faces
    let mut incidence = vec![0usize; nv];
    let mut directed: BTreeMap<(usize, usize), usize> = BTreeMap::new();
    let ints = cell.compute_face_integrals::<(), AreaIntegral>(());
    if ints.len() != nf {
        return Err(format!("cell {i}: face_count() = {nf} but compute_face_integrals yields {} faces", ints.len()));
    }
    // areas from the independent decomposition (without stored faces), by plane
    let plain_areas: BTreeMap<usize, f64> = plain.compute_face_integrals::<(), PlaneFace>(()).iter().map(|f| (f.integral().plane_idx, f.integral().area)).collect();
    let mut prev_plane = None;
    for f in 0..nf {
        let vs = cell.face_vertices(f);
        if vs.len() != cell.face_vertex_count(f) {
            return Err(format!("cell {i} face {f}: face_vertex_count() = {} but face_vertices() has {}", cell.face_vertex_count(f), vs.len()));
        }
        let plane = cell.clipping_plane(f);
        // which clipping plane is it? (identified through the shared vertices)
        let mut common: Option<Vec<usize>> = None;
        for &v in vs {
            if v >= nv {
                return Err(format!("cell {i} face {f}: vertex index {v} >= {nv}"));
            }
            let d = cell.vertices[v].dual.to_vec();
            common = Some(match common {
                None => d,
                Some(cm) => cm.into_iter().filter(|p| d.contains(p)).collect(),
            });
            incidence[v] += 1;
        }
        let common = common.unwrap_or_default();
        let p_idx = common.iter().copied().find(|&p| bits3(cell.clipping_planes[p].plane.n) == bits3(plane.n) && bits3(cell.clipping_planes[p].plane.p) == bits3(plane.p));
        let p_idx = match p_idx {
            Some(p) => p,
            None => return Err(format!("cell {i} face {f}: its vertices {:?} do not share the plane returned by clipping_plane({f})", vs)),
        };
        if let Some(pp) = prev_plane {
            if p_idx <= pp {
                return Err(format!("cell {i}: faces are not listed in the order of their clipping planes ({pp} before {p_idx})"));
            }
        }
        prev_plane = Some(p_idx);
        let hs = &cell.clipping_planes[p_idx];
        if cell.neighbour(f) != hs.right_idx || cell.shift(f).map(bits3) != hs.shift.map(bits3) {
            return Err(format!("cell {i} face {f}: neighbour()/shift() = {:?}/{:?} but the plane belongs to {:?}/{:?}", cell.neighbour(f), cell.shift(f), hs.right_idx, hs.shift));
        }
        if ints[f].right() != cell.neighbour(f) || ints[f].shift().map(bits3) != cell.shift(f).map(bits3) {
            return Err(format!("cell {i} face {f}: neighbour()/shift() disagree with the {f}-th face integral ({:?}/{:?} vs {:?}/{:?})", cell.neighbour(f), cell.shift(f), ints[f].right(), ints[f].shift()));
        }
        let mut seen = std::collections::BTreeSet::new();
        if vs.iter().any(|v| !seen.insert(*v)) {
            return Err(format!("cell {i} face {f}: a vertex occurs twice in {:?}", vs));
        }
        let m = vs.len();
        if m < 3 {
            if well {
                return Err(format!("cell {i} face {f} (towards {:?}): only {m} vertices {:?} - not a polygon", hs.right_idx, vs));
            }
            cs.count("degenerate_faces_with_fewer_than_3_vertices_in_ill_conditioned_cells", 1);
        }
        for q in 0..m {
            *directed.entry((vs[q], vs[(q + 1) % m])).or_insert(0) += 1;
        }
        if m >= 3 {
            // combinatorial orientation: consecutive vertices share a second plane
            for q in 0..m {
                let (a, b) = (&cell.vertices[vs[q]], &cell.vertices[vs[(q + 1) % m]]);
                if !a.dual.iter().any(|p| *p != p_idx && b.dual.contains(p)) {
                    return Err(format!("cell {i} face {f}: consecutive polygon vertices {} and {} do not share an edge (duals {:?} / {:?})", vs[q], vs[(q + 1) % m], a.dual, b.dual));
                }
            }
        }
        if well && m >= 3 {
            let n_in = plane.n;
            let mut cross_sum = DVec3::ZERO;
            let tolp = kmax * (64. * eps + snap);
            let mut perimeter = 0.;
            for q in 0..m {
                let (a, b, cc) = (cell.vertices[vs[q]].loc, cell.vertices[vs[(q + 1) % m]].loc, cell.vertices[vs[(q + 2) % m]].loc);
                perimeter += a.distance(b);
                // planar
                let off = n_in.dot(a - plane.p).abs();
                if off > tolp {
                    return Err(format!("cell {i} face {f}: polygon vertex {} is {:e} off the face plane", vs[q], off));
                }
                // convex and counter-clockwise about the inward normal: every turn is a left turn
                let turn = (b - a).cross(cc - b).dot(n_in);
                if turn < -(tolp * ((b - a).length() + (cc - b).length()) + 1e-300) {
                    return Err(format!("cell {i} face {f} (towards {:?}): the polygon {:?} turns clockwise about the inward normal at vertex {} (turn {:e}): not convex / not counter-clockwise", hs.right_idx, vs, vs[(q + 1) % m], turn));
                }
            }
            let v0 = cell.vertices[vs[0]].loc;
            for q in 1..m - 1 {
                cross_sum += (cell.vertices[vs[q]].loc - v0).cross(cell.vertices[vs[q + 1]].loc - v0);
            }
            let signed_area = 0.5 * cross_sum.dot(n_in);
            let tola = tolp * perimeter + 1e-11 * signed_area.abs();
            if signed_area < -tola {
                return Err(format!("cell {i} face {f}: the polygon {:?} is clockwise about the inward plane normal (signed area {:e})", vs, signed_area));
            }
            // shoelace area = the face's area integral (with faces) = the independent decomposition
            let a_int = ints[f].integral().area;
            if (signed_area - a_int).abs() > tola {
                return Err(format!("cell {i} face {f}: polygon area {:e} differs from the face's area integral {:e} (tol {:e})", signed_area, a_int, tola));
            }
            if let Some(a_plain) = plain_areas.get(&p_idx) {
                // (the decomposition without stored faces sums signed triangles whose size is that of
                // the whole cell, so its rounding error scales with the cell, not with the face)
                if (signed_area - a_plain).abs() > tola + 64. * eps * kmax * (perimeter + r_cell) + 1e-12 * r_cell * r_cell {
                    return Err(format!("cell {i} face {f}: polygon area {:e} differs from the area integral of the same face without stored faces {:e} (tol {:e})", signed_area, a_plain, tola));
                }
            }
            cs.count("polygons_checked", 1);
        }
    }
    for (k, &cnt) in incidence.iter().enumerate() {
        if cnt != 3 {
            return Err(format!("cell {i}: vertex {k} (planes {:?}) belongs to {cnt} faces, not 3", cell.vertices[k].dual));
        }
    }
    // every undirected edge: once in each direction
    let mut edges = 0usize;
    for (&(a, b), &cnt) in &directed {
        if cnt != 1 {
            return Err(format!("cell {i}: the directed edge ({a},{b}) occurs {cnt} times in the face polygons"));
        }
        if directed.get(&(b, a)).copied().unwrap_or(0) != 1 {
            return Err(format!("cell {i}: the edge ({a},{b}) is not shared by exactly two faces in opposite directions"));
        }
        if a < b {
            edges += 1;
        }
    }
    if nv + nf != edges + 2 {
        return Err(format!("cell {i}: V - E + F = {} - {} + {} != 2", nv, edges, nf));
    }
    cs.count("cells_checked", 1);
    let interesting = nf >= 7 && (0..nf).any(|f| cell.neighbour(f).is_some());
    cs.count(if well { "cells_well_conditioned" } else { "cells_ill_conditioned_combinatorial_only" }, 1);
    Ok(interesting)
}

enum State {
    Plain(ConvexCell<WithoutFaces>),
    Faces(ConvexCell<WithFaces>),
}

/// Stateful part: a generated sequence of operations on one cell; the model is one bit.
fn run_ops(c: &Case, cell0: &ConvexCell<WithoutFaces>, ops: &[i64], cs: &mut CaseStats) -> Result<(), String> {
    let base_int = integral_snapshot(cell0);
    let base_faces = face_snapshot(&cell0.clone().with_faces());
    let mut st = State::Plain(cell0.clone());
    let mut has_faces = false; // the model
    for (step, &op) in ops.iter().enumerate() {
        st = match (st, op) {
            (State::Plain(p), 0) => {
                has_faces = true;
                State::Faces(p.with_faces())
            }
            (State::Faces(f), 1) => {
                has_faces = false;
                State::Plain(f.discard_faces())
            }
            (State::Plain(p), 2) => State::Plain(p.clone()),
            (State::Faces(f), 2) => State::Faces(f.clone()),
            (State::Plain(p), 3) => {
                if integral_snapshot(&p) != base_int {
                    return Err(format!("cell {}: after the operation sequence {:?} (step {step}) the integrals of the cell without faces differ bitwise from those of the never-converted cell", p.idx, &ops[..step]));
                }
                State::Plain(p)
            }
            (State::Faces(f), 3) | (State::Faces(f), 4) => {
                // unchecked accessors: face data must be present
                if face_snapshot(&f) != base_faces {
                    return Err(format!("cell {}: after the operation sequence {:?} (step {step}) the face lists differ from those derived directly", f.idx, &ops[..step]));
                }
                let _ = integral_snapshot(&f);
                State::Faces(f)
            }
            (s, _) => s, // operation not applicable in this state (type state: does not compile)
        };
        let is_faces = matches!(st, State::Faces(_));
        if is_faces != has_faces {
            return Err("INFRA: model and state diverged".into());
        }
        cs.count("state_machine_steps", 1);
    }
    let _ = c;
    Ok(())
}

pub fn check(c: &Case, cs: &mut CaseStats) -> Result<(), String> {
    gen::classify(c, cs);
    if !gen::is_valid(c) {
        return Err("INFRA: generator produced an invalid case".into());
    }
    let n = c.n();
    let vi = obs::integrator(c, c.mask.as_deref());
    let constructed = vi.cells_iter().count();
    if c.dim < 3 {
        // rejection clause
        if constructed == 0 {
            cs.label("lowdim-no-constructed-cell");
            return Ok(());
        }
        let single = vi.cells_iter().next().unwrap().clone();
        for (what, r) in [
            ("VoronoiIntegrator::with_faces", std::panic::catch_unwind(std::panic::AssertUnwindSafe(|| vi.clone().with_faces().cells_iter().count()))),
            ("ConvexCell::with_faces", std::panic::catch_unwind(std::panic::AssertUnwindSafe(|| single.with_faces().face_count()))),
        ] {
            match r {
                Ok(k) => return Err(format!("{what} on a {}D tessellation was accepted ({k}) instead of being rejected", c.dim)),
                Err(p) => {
                    let msg = p.downcast_ref::<&str>().map(|s| s.to_string()).or_else(|| p.downcast_ref::<String>().cloned()).unwrap_or_default();
                    if !msg.contains("WithFaces in 3D") {
                        return Err(format!("{what} on a {}D tessellation panicked with an unexpected message: {msg}", c.dim));
                    }
                }
            }
        }
        cs.label("lowdim-rejected");
        cs.count("lowdim_rejections", 2);
        return Ok(());
    }
    let vf = vi.clone().with_faces();
    let mut any = false;
    for i in 0..n {
        match (vi.get_cell_at(i), vf.get_cell_at(i)) {
            (Some(plain), Some(cell)) => {
                if cell.idx != i {
                    return Err(format!("with_faces(): the cell at {i} has idx {}", cell.idx));
                }
                any |= check_polytope(c, plain, cell, cs)?;
                // discarding and re-deriving is the identity
                let again = cell.clone().discard_faces();
                if integral_snapshot(&again) != integral_snapshot(plain) {
                    return Err(format!("cell {i}: discard_faces() does not give bitwise the integrals of the never-converted cell"));
                }
                if face_snapshot(&again.with_faces()) != face_snapshot(cell) {
                    return Err(format!("cell {i}: discard_faces().with_faces() does not reproduce the face lists"));
                }
            }
            (None, None) => {}
            _ => return Err(format!("with_faces() changed which cells are constructed (cell {i})")),
        }
    }
    // stateful part on one picked cell
    if constructed > 0 && !c.aux_i.is_empty() {
        let k = c.aux_i[0] as usize % constructed;
        let cell0 = vi.cells_iter().nth(k).unwrap();
        run_ops(c, cell0, &c.aux_i[1..], cs)?;
        if c.aux_i.len() > 4 {
            cs.label("op-sequence>=4");
        }
    }
    if any {
        cs.nt();
        cs.label("cell-with>=7-faces");
    }
    if vi.cells_iter().any(|cell| cell.clipping_planes.len() >= 256) {
        cs.label("cell-with>=256-planes");
    }
    Ok(())
}

/// deterministic part: one large shell (thorough tier: 11 000 generators, a cell with more than
/// 10 900 faces and 65 000 face-vertex entries; quick tier: 700)
fn fixed(tier: Tier, stats: &mut crate::runner::Stats) -> Result<(), crate::runner::Failure> {
    let n = tier.pick(700, 11_000);
    let mut c = gen::shell_case(n, 0.4, 0.123, 1e-3, false, 0, [1.; 3], 0);
    c.aux_i = vec![0, 0, 3, 1, 0, 4];
    let (r, mut cs) = crate::runner::eval(check, &c);
    cs.label("fixed-large-shell");
    let h = c.hash64();
    stats.absorb(h, cs, Some(c.to_sample()));
    r.map_err(|m| crate::runner::Failure { message: m, case: Some(c) })
}

pub fn def() -> PropDef {
    PropDef {
        id: "C15",
        rule: "cases: 85% 3D inputs from all families (incl. exact lattices, co-spherical, coplanar, wall points, clusters) x masks, periodic or not, n to 60 (quick) / 150 (thorough); 10% 1D / 2D inputs for the rejection clause; 5% 'shell' inputs (a generator surrounded by 20..400 (quick) / 1500 (thorough) generators on a jittered Fibonacci sphere: cells with hundreds of faces and clipping planes), and in the thorough tier one fixed shell of 11 000 generators (a cell with more than 10 900 faces, 65 000 face-vertex entries); each with a generated sequence of 0..12 operations {with_faces, discard_faces, clone, integrals, accessors} applied to one picked cell (interpreter + one-bit model 'has faces'). oracle for every constructed cell of VoronoiIntegrator::with_faces(): every (well-conditioned) vertex lies on its three planes and inside all half spaces of the cell; every vertex occurs in exactly three face lists; every face list is duplicate free, consecutive vertices share an edge (a second common plane), the polygon is planar on clipping_plane(f), every turn is a left turn about the inward normal (convex, counter-clockwise), its shoelace area equals the face's AreaIntegral and the area integral of the same plane computed without stored faces; every edge is used once in each direction by exactly two faces; V - E + F = 2; faces are listed in clipping-plane order and neighbour(f) / shift(f) equal those of the f-th non-symmetric face integral; discard_faces() gives bitwise the integrals of the never-converted cell and discard_faces().with_faces() reproduces the lists; after any operation sequence the unchecked accessors return the same data; with_faces on a 1D / 2D integrator or cell panics with the documented message. Geometric predicates are applied to cells whose vertices have conditioning <= 1e3, combinatorial ones to all. non-trivial: some cell with >= 7 faces of which one is not a wall; distinct by case hash.",
        strategy,
        check,
        cases: |t| t.pick(3000, 120_000),
        profiles: &["release", "dbg"],
        required: &["cell-with>=7-faces", "cell-with>=256-planes", "lowdim-rejected", "op-sequence>=4", "periodic", "mask:mixed"],
        fixed: Some(fixed),
        assumptions: &["'face data is always present when accessed without a check' is a type-state invariant: every public constructor / transition sequence is driven and the accessors are called after each step (also in the debug-assertions build); that no future code path constructs a ConvexCell<WithFaces> without face data cannot be shown by testing", "geometric predicates skip ill-conditioned cells (known finding 'ill-conditioned'), the combinatorial ones do not"],
    }
}
