//! C16 — the safety radius bounds the cell and its region of influence.
//!
//! (a) bound: the reported radius is at least twice the distance (active subspace) from the
//!     generator to the farthest point of the *brute-force* cell, hence at least the distance to
//!     every neighbour with a non-negligible face; and (reference-free, all cells) at least twice
//!     the distance to every vertex the library itself reports.
//! (b) history: 1..20 further generators are placed by construction outside the safety ball of a
//!     chosen cell (many of them just outside, 1.0 .. 1.5 radii) and added in 1..3 batches; after
//!     every batch the cell is rebuilt from scratch with the enlarged generator set and must be
//!     unchanged: same faces (neighbour, shift), volume / centroid / areas / radius up to rounding.
use crate::case::Case;
use crate::cellinfo::{ball_surface, cell_infos, face_perimeter_bound};
use crate::gen::{self, Fam, GenOpts};
use crate::obs::{self, PlaneFace};
use crate::refcmp::{ref_bundle, unresolvable, VAR_FACTOR};
use crate::refmodel::Tag;
use crate::runner::{CaseStats, PropDef, Tier};
use crate::tol;
use glam::DVec3;
use meshless_voronoi::integrals::VolumeCentroidIntegral;
use meshless_voronoi::verif_hooks as hooks;
use proptest::prelude::*;
use proptest::strategy::BoxedStrategy;
use std::collections::BTreeMap;

const FAMS: &[(u32, Fam)] = &[(5, Fam::U), (4, Fam::K), (1, Fam::L0), (1, Fam::L1), (2, Fam::Lp), (1, Fam::Lb), (1, Fam::B), (1, Fam::S), (1, Fam::P), (1, Fam::D), (1, Fam::E), (1, Fam::N)];
const MAX_ADD: usize = 20;

fn strategy(tier: Tier) -> BoxedStrategy<Case> {
    let base = gen::case_strategy(GenOpts { max_n: tier.pick(120, 300), big_n_weight: 5, fams: FAMS.to_vec(), max_offset_log2: 12, ..GenOpts::default() });
    (base, proptest::collection::vec(0.0f64..1.0, 4 + 4 * MAX_ADD))
        .prop_map(|(mut c, a)| {
            c.aux_f = a;
            c
        })
        .boxed()
}

/// Minimum-image distance in the active subspace (all 3^d images explicitly).
fn min_image_dist(c: &Case, a: &[f64; 3], b: &[f64; 3]) -> f64 {
    let d = c.d();
    let w = c.eff_width();
    let r: i32 = if c.periodic { 1 } else { 0 };
    let mut best = f64::INFINITY;
    let rng = |k: usize| if k < d { -r..=r } else { 0..=0 };
    for sx in rng(0) {
        for sy in rng(1) {
            for sz in rng(2) {
                let s = [sx as f64 * w[0], sy as f64 * w[1], sz as f64 * w[2]];
                let mut q = 0.;
                for k in 0..d {
                    let x = b[k] + s[k] - a[k];
                    q += x * x;
                }
                best = best.min(q.sqrt());
            }
        }
    }
    best
}

fn direction(d: usize, u1: f64, u2: f64) -> [f64; 3] {
    match d {
        1 => [if u1 < 0.5 { -1. } else { 1. }, 0., 0.],
        2 => {
            let a = 2. * std::f64::consts::PI * u1;
            [a.cos(), a.sin(), 0.]
        }
        _ => {
            let z = 2. * u2 - 1.;
            let s = (1. - z * z).max(0.).sqrt();
            let a = 2. * std::f64::consts::PI * u1;
            [s * a.cos(), s * a.sin(), z]
        }
    }
}

struct Snapshot {
    volume: f64,
    centroid: DVec3,
    sr: f64,
    faces: BTreeMap<Tag, (f64, DVec3)>,
    pos: f64,
    r: f64,
    well: bool,
    bits: Vec<u64>,
}

fn snapshot(c: &Case, i: usize) -> Result<Snapshot, String> {
    let vi = obs::integrator(c, None);
    let cell = vi.get_cell_at(i).ok_or_else(|| format!("cell {i} missing in a full build"))?;
    let vc: VolumeCentroidIntegral = cell.compute_cell_integral::<(), VolumeCentroidIntegral>(());
    let mut faces = BTreeMap::new();
    let mut bits = vec![vc.volume.to_bits(), vc.centroid.x.to_bits(), vc.centroid.y.to_bits(), vc.centroid.z.to_bits()];
    for f in cell.compute_face_integrals::<(), PlaneFace>(()) {
        let pf = f.integral();
        let hs = &cell.clipping_planes[pf.plane_idx];
        let key = crate::refcmp::face_key(c, hs.right_idx, hs.shift, pf.plane_idx);
        faces.insert(key, (pf.area, pf.centroid));
        bits.push(pf.area.to_bits());
    }
    let sr = hooks::cell_safety_radius(cell);
    bits.push(sr.to_bits());
    // conditioning of this one cell (mask trick: cell_infos wants the whole integrator)
    let infos = cell_infos(c, &vi);
    let info = infos[i].clone().ok_or("cell info missing")?;
    Ok(Snapshot { volume: vc.volume, centroid: vc.centroid, sr, faces, pos: info.pos, r: info.r, well: info.well, bits })
}

pub fn check(c: &Case, cs: &mut CaseStats) -> Result<(), String> {
    gen::classify(c, cs);
    if !gen::is_valid(c) {
        return Err("INFRA: generator produced an invalid case".into());
    }
    if c.aux_f.len() < 4 + 4 * MAX_ADD {
        return Err("INFRA: aux_f too short".into());
    }
    let n = c.n();
    let d = c.d();
    let v = obs::build_full(c);
    if unresolvable(c) {
        cs.label("unresolvable-arrangement");
        return Ok(());
    }
    let gens = c.eff_gens();
    let srs: Vec<f64> = v.cells().iter().map(|x| x.safety_radius()).collect();
    if let Some(i) = srs.iter().position(|s| !(s.is_finite() && *s > 0.)) {
        return Err(format!("cell {i}: safety radius {} is not a positive finite number", srs[i]));
    }

    // ---- (a) reference-free part, every cell: radius >= 2 |v - g| for every reported vertex
    let vi = obs::integrator(c, None);
    let mut fars = vec![0f64; n];
    for i in 0..n {
        let cell = vi.get_cell_at(i).ok_or_else(|| format!("cell {i} missing in a full build"))?;
        let sr_i = hooks::cell_safety_radius(cell);
        if sr_i.to_bits() != srs[i].to_bits() {
            return Err(format!("cell {i}: VoronoiCell::safety_radius() = {:e} but the convex cell it was made from has {:e}", srs[i], sr_i));
        }
        let g = DVec3::from_array(gens[i]);
        let mut far: f64 = 0.;
        for vx in &cell.vertices {
            let mut q = 0.;
            for k in 0..d {
                let x = vx.loc[k] - g[k];
                q += x * x;
            }
            far = far.max(q.sqrt());
        }
        fars[i] = far;
        let slack = 1e-12 * far + 64. * tol::U * c.scale_l();
        if srs[i] < 2. * far - slack {
            return Err(format!("cell {i}: safety radius {:e} is smaller than twice the distance {:e} to its own farthest vertex (active subspace)", srs[i], far));
        }
        cs.count("cells_vertex_bound_checked", 1);
    }

    // ---- (a') the radius every other entry point reports for the same cell: through cells with
    // stored faces (3D) and through the conversion of either integrator into a Voronoi. The bound
    // is a statement about "the reported safety radius of a constructed cell", whichever way the
    // cell was obtained; the state transitions copy the cell, they must not lose the radius.
    {
        let mut routes: Vec<(&str, Vec<f64>)> = vec![("Voronoi::from(&integrator)", meshless_voronoi::Voronoi::from(&vi).cells().iter().map(|x| x.safety_radius()).collect())];
        if c.dim == 3 {
            let wf = vi.clone().with_faces();
            routes.push(("VoronoiIntegrator::with_faces() cells", (0..n).map(|i| wf.get_cell_at(i).map_or(f64::NAN, hooks::cell_safety_radius)).collect()));
            routes.push(("Voronoi::from(&integrator.with_faces())", meshless_voronoi::Voronoi::from(&wf).cells().iter().map(|x| x.safety_radius()).collect()));
            let back = wf.get_cell_at(0).map(|x| hooks::cell_safety_radius(&x.clone().discard_faces()));
            if let Some(b) = back {
                routes.push(("with_faces().discard_faces() of cell 0", std::iter::once(b).chain(srs.iter().skip(1).copied()).collect()));
            }
        }
        for (what, r) in &routes {
            for i in 0..n {
                let slack = 1e-12 * fars[i] + 64. * tol::U * c.scale_l();
                if !(r[i].is_finite() && r[i] > 0. && r[i] >= 2. * fars[i] - slack) {
                    return Err(format!("cell {i}: the safety radius reported through {what} is {:e}: not a positive finite number at least twice the distance {:e} to the cell's farthest vertex (Voronoi::build reports {:e})", r[i], fars[i], srs[i]));
                }
            }
            cs.count("radius_routes_compared", 1);
        }
    }

    // ---- choose the cell of the history: biased towards small radii (room for additions)
    let mut order: Vec<usize> = (0..n).collect();
    order.sort_by(|&a, &b| srs[a].partial_cmp(&srs[b]).unwrap().then(a.cmp(&b)));
    let pick = ((c.aux_f[0] * c.aux_f[0] * n as f64) as usize).min(n - 1);
    let i = order[pick];
    let sr = srs[i];
    let g = gens[i];

    // ---- (a) with the brute-force cell: the chosen cell plus up to three more
    let images = if c.periodic { 5usize.pow(d as u32) } else { 1 };
    let mut ref_cells = vec![i];
    for k in 1..=3 {
        let j = order[(pick + k * (n / 4).max(1)) % n];
        if !ref_cells.contains(&j) {
            ref_cells.push(j);
        }
    }
    let thr = tol::face_threshold(c);
    if n * images <= 8000 {
        for &j in &ref_cells {
            let b = ref_bundle(c, j);
            let slack = 2. * (VAR_FACTOR * b.var_vertex + tol::eps_pos(c)) + 1e-11 * b.base.max_vertex_dist;
            cs.max("radius_deficit_over_slack", (2. * b.base.max_vertex_dist - srs[j]) / slack);
            if srs[j] < 2. * b.base.max_vertex_dist - slack {
                return Err(format!(
                    "cell {j}: safety radius {:e} < 2 x {:e} = twice the distance from the generator to the farthest point of the brute-force cell (slack {:e})",
                    srs[j], b.base.max_vertex_dist, slack
                ));
            }
            let w = c.eff_width();
            for f in &b.base.faces {
                if let Tag::Site(k, s) = f.tag {
                    let fv = &b.faces[&f.tag];
                    if f.area <= thr + VAR_FACTOR * fv.area || tol::lowdim_area_unreliable(c) {
                        continue;
                    }
                    let mut q = 0.;
                    for a in 0..d {
                        let x = gens[k][a] + s[a] as f64 * w[a] - gens[j][a];
                        q += x * x;
                    }
                    if srs[j] < q.sqrt() - slack {
                        return Err(format!("cell {j}: safety radius {:e} is smaller than the distance {:e} to generator {k} (shift {:?}) which shares a face of area {:e} with it", srs[j], q.sqrt(), s, f.area));
                    }
                    cs.count("neighbour_distance_bounds_checked", 1);
                }
            }
            cs.count("cells_bound_checked_against_reference", 1);
        }
    }

    // ---- (b) the history
    let before = snapshot(c, i)?;
    let margin = 1e-9 * sr + 64. * tol::U * c.scale_l();
    let lim = sr + margin;
    let m = 1 + ((c.aux_f[1] * MAX_ADD as f64) as usize).min(MAX_ADD - 1);
    let batches = 1 + ((c.aux_f[2] * 3.) as usize).min(2);
    let a = c.eff_anchor();
    let w = c.eff_width();
    let mut ext = c.clone();
    ext.aux_f.clear();
    let sep = gen::sep_min(c);
    let mut added: Vec<f64> = vec![]; // distance / radius of every added generator
    let mut no_room = 0u64;
    let mut per_batch: Vec<usize> = vec![];
    for k in 0..m {
        let u = &c.aux_f[4 + 4 * k..8 + 4 * k];
        let mut cand: Option<[f64; 3]> = None;
        if u[0] < 0.7 {
            // just outside the ball: radius in (1, 1.5] x safety radius, cubic bias towards 1
            let r = lim * (1. + 0.5 * u[3] * u[3] * u[3]) + margin;
            let dir = direction(d, u[1], u[2]);
            for sign in [1., -1.] {
                let mut p = [0.; 3];
                let mut inside = true;
                for q in 0..d {
                    p[q] = g[q] + sign * r * dir[q];
                    if c.periodic {
                        // wrap into the box
                        let t = (p[q] - a[q]) / w[q];
                        p[q] = a[q] + (t - t.floor()) * w[q];
                        p[q] = p[q].max(a[q]).min(a[q] + w[q]);
                    } else if !(p[q] >= a[q] && p[q] <= a[q] + w[q]) {
                        inside = false;
                    }
                }
                if inside && min_image_dist(c, &g, &p) > lim {
                    cand = Some(p);
                    break;
                }
            }
        }
        if cand.is_none() {
            // anywhere in the box
            let mut p = [0.; 3];
            for q in 0..d {
                p[q] = (a[q] + u[1 + q] * w[q]).max(a[q]).min(a[q] + w[q]);
            }
            if min_image_dist(c, &g, &p) > lim {
                cand = Some(p);
            }
        }
        match cand {
            Some(mut p) => {
                // unused coordinates as in the rest of the case (projected away by the library)
                for q in d..3 {
                    p[q] = c.gens[0][q];
                }
                if ext.gens.iter().all(|h| gen::active_dist(c, h, &p) >= sep) {
                    added.push(min_image_dist(c, &g, &p) / sr);
                    ext.gens.push(p);
                } else {
                    no_room += 1;
                }
            }
            None => no_room += 1,
        }
        if (k + 1) * batches / m > per_batch.len() || k + 1 == m {
            per_batch.push(ext.gens.len());
        }
    }
    cs.count("additions_without_room", no_room);
    cs.count("generators_added", added.len() as u64);
    if added.is_empty() {
        cs.label("no-room-for-additions");
        return Ok(());
    }
    per_batch.dedup();
    if !gen::is_valid(&ext) {
        return Err("INFRA: the extended generator set is not a valid input".into());
    }
    let d_tol_v = |s: &Snapshot| s.pos * ball_surface(d, s.r) + 1e-11 * s.volume.abs();
    let mut bitwise_same = true;
    for &len in &per_batch {
        if len == n {
            continue;
        }
        let mut step = ext.clone();
        step.gens.truncate(len);
        let after = snapshot(&step, i)?;
        cs.count("rebuilds_compared", 1);
        if after.bits != before.bits {
            bitwise_same = false;
        }
        let pos = before.pos + after.pos;
        // radius
        if (after.sr - before.sr).abs() > 2. * pos + 1e-12 * before.sr {
            return Err(format!(
                "cell {i}: safety radius changed from {:e} to {:e} after adding {} generators, all farther than the original radius (nearest at {:.6} radii)",
                before.sr,
                after.sr,
                len - n,
                added.iter().cloned().fold(f64::INFINITY, f64::min)
            ));
        }
        // measure
        let tolv = d_tol_v(&before) + d_tol_v(&after);
        if (after.volume - before.volume).abs() > tolv {
            return Err(format!(
                "cell {i}: volume changed from {:e} to {:e} (diff {:e} > tol {:e}) after adding {} generators outside its safety ball (radius {:e}, nearest addition at {:.6} radii)",
                before.volume,
                after.volume,
                (after.volume - before.volume).abs(),
                tolv,
                len - n,
                before.sr,
                added.iter().cloned().fold(f64::INFINITY, f64::min)
            ));
        }
        if tolv < 0.125 * before.volume {
            let tolc = 2. * before.r * tolv / before.volume + pos;
            let dc = tol::active_distance(c, after.centroid, before.centroid);
            if dc > tolc {
                return Err(format!("cell {i}: centroid moved by {:e} > tol {:e} after adding generators outside its safety ball", dc, tolc));
            }
        }
        // faces, both directions
        if before.well && after.well && !tol::lowdim_area_unreliable(c) {
            let tola = |area: f64| pos * face_perimeter_bound(d, before.r) + 1e-11 * area.abs();
            for (key, (area, cen)) in &before.faces {
                match after.faces.get(key) {
                    Some((a2, c2)) => {
                        if (a2 - area).abs() > tola(*area) {
                            return Err(format!("cell {i}: face {:?} changed its area from {:e} to {:e} after adding generators outside the safety ball", key, area, a2));
                        }
                        if *area > thr && tola(*area) < 0.125 * area {
                            let tolc = 2. * face_perimeter_bound(d, before.r) * tola(*area) / area + pos;
                            if cen.distance(*c2) > tolc {
                                return Err(format!("cell {i}: face {:?} moved its centroid by {:e} after adding generators outside the safety ball", key, cen.distance(*c2)));
                            }
                        }
                        cs.count("faces_compared", 1);
                    }
                    None => {
                        if *area > thr + tola(*area) {
                            return Err(format!("cell {i}: face {:?} of area {:e} disappeared after adding generators outside the safety ball", key, area));
                        }
                    }
                }
            }
            for (key, (area, _)) in &after.faces {
                if !before.faces.contains_key(key) && *area > thr + tola(*area) {
                    let what = match key {
                        Tag::Site(j, _) if *j >= n => "towards an ADDED generator",
                        _ => "towards an old generator",
                    };
                    return Err(format!(
                        "cell {i}: new face {:?} of area {:e} {what} after adding generators that are all farther away than the safety radius {:e}",
                        key, area, before.sr
                    ));
                }
            }
        } else {
            cs.count("face_comparisons_skipped_ill_conditioned_or_lowdim", 1);
        }
    }
    if bitwise_same {
        cs.count("histories_bitwise_unchanged", 1);
    }
    let nearest = added.iter().cloned().fold(f64::INFINITY, f64::min);
    cs.max("nearest_addition_in_radii_inverse", 1. / nearest);
    if nearest <= 1.5 {
        cs.nt();
        cs.label("addition-within-1.5-radii");
    }
    if nearest <= 1.05 {
        cs.label("addition-within-1.05-radii");
    }
    if per_batch.len() >= 2 {
        cs.label("multi-batch-history");
    }
    Ok(())
}

pub fn def() -> PropDef {
    PropDef {
        id: "C16",
        rule: "cases: valid inputs weighted to uniform and clustered sets with n up to 120 (quick) / 300 (thorough) (so that safety balls smaller than the box exist), plus lattices, wall points, co-spherical, coplanar, dyadic, shared-coordinate, n = 1/2; all dimensionalities, periodic or not, aspect to 2^14, offsets to 2^12. (a) every cell: radius >= 2 x distance to each reported vertex (active subspace); the chosen cell and up to 3 others: radius >= 2 x farthest point of the brute-force cell and >= distance to every neighbour with a non-negligible reference face. (b) history: a cell is chosen (biased to small radii); 1..20 further generators are placed by construction at minimum-image distance > radius (70% of them at 1.0..1.5 radii in a random direction, cubic bias towards 1.0; the rest anywhere in the box), appended in 1..3 batches; after each batch the whole tessellation is rebuilt and the chosen cell compared with the original: radius, volume, centroid, complete face map (neighbour, shift) -> area, centroid, within the rounding tolerance derived from the cell's conditioning; no face towards an added generator. non-trivial: >= 1 generator added and the nearest addition within 1.5 radii; sub-label for within 1.05 radii; distinct by case hash. Bitwise-unchanged histories are counted but not demanded (equidistant candidates may be visited in another order once the r-tree changes). The vertex bound is also applied to the radius reported for the same cells through the other entry points: Voronoi::from(&integrator), and in 3D the cells of VoronoiIntegrator::with_faces(), Voronoi::from(&integrator.with_faces()) and with_faces().discard_faces().",
        strategy,
        check,
        cases: |t| t.pick(3000, 100_000),
        profiles: &["release"],
        required: &["addition-within-1.5-radii", "addition-within-1.05-radii", "multi-batch-history", "periodic", "reflective", "dim1", "dim2", "dim3"],
        fixed: None,
        assumptions: &["over-estimates of the radius are legal and never flagged", "faces of ill-conditioned cells and 1D/2D face areas at coordinates > 1e10 are exempt as in C01/C03", "additions keep the input valid (inside the closed box, separation >= 2^-44 L from every other generator)"],
    }
}
