//! C02 — cells tile the domain: positive measures that sum to the box measure.
use crate::case::Case;
use crate::gen::{self, GenOpts};
use crate::obs;
use crate::runner::{CaseStats, PropDef, Tier};
use crate::tol;
use meshless_voronoi::integrals::VolumeIntegral;
use proptest::strategy::BoxedStrategy;

fn strategy(tier: Tier) -> BoxedStrategy<Case> {
    use proptest::prelude::*;
    let base = gen::case_strategy(GenOpts { max_n: tier.pick(600, 4000), big_n_weight: 1, ..GenOpts::default() });
    // 1 % clump inputs (density contrast: a dense clump of 1200..3000 / 8000 generators next to
    // a few big cells)
    prop_oneof![99 => base, 1 => gen::clump_strategy(1200, tier.pick(3000, 8000))].boxed()
}

/// A-priori bound on the boundary measure of a cell that lies inside the ball of radius r
/// around its generator (unit thickness along unused axes), capped by the box.
fn ball_surface(c: &Case, r: f64) -> f64 {
    let w = c.eff_width();
    let diag = (0..c.d()).map(|k| w[k] * w[k]).sum::<f64>().sqrt();
    let r = r.min(diag * if c.periodic { 2. } else { 1. });
    match c.d() {
        1 => 2.,
        2 => 2. * std::f64::consts::PI * r,
        _ => 4. * std::f64::consts::PI * r * r,
    }
}

pub fn check(c: &Case, cs: &mut CaseStats) -> Result<(), String> {
    gen::classify(c, cs);
    if !gen::is_valid(c) {
        return Err("INFRA: generator produced an invalid case".into());
    }
    let n = c.n();
    let boxm = c.box_measure();
    let vi = obs::integrator(c, None);
    let unresolvable = crate::refcmp::unresolvable(c);
    if unresolvable {
        cs.label("unresolvable-arrangement");
    }
    let mut tol_sum = 1e-11 * boxm;
    let mut kmax: f64 = 1.;
    let mut tol_cell = vec![0.; n];
    for i in 0..n {
        let cell = vi.get_cell_at(i).ok_or_else(|| format!("cell {i} missing in a full build"))?;
        let k = obs::vertex_kappa(cell).into_iter().fold(1., f64::max).min(tol::KAPPA_CAP);
        kmax = kmax.max(k);
        let sr = meshless_voronoi::verif_hooks::cell_safety_radius(cell);
        // The signed decomposition works with tetrahedra that reach as far as the cell does
        // (radius R = safety_radius / 2), so its absolute rounding error scales with the
        // surface of that ball, not with the (possibly much smaller) surface of a flat cell.
        // distance to the nearest neighbour with a face (from the cell's own planes)
        let s_min = cell
            .clipping_planes
            .iter()
            .filter(|p| p.right_idx.is_some())
            .map(|p| 2. * (p.plane.p - cell.loc).dot(p.plane.n).abs())
            .fold(f64::INFINITY, f64::min);
        let r = 0.5 * sr;
        let snap = if s_min.is_finite() { tol::snap_theta(c, s_min) * r } else { 0. };
        if snap > tol::eps_pos(c) {
            cs.count("cells_with_snapping_dominated_tolerance", 1);
        }
        tol_cell[i] = (tol::eps_pos(c) * k + snap) * ball_surface(c, r);
        tol_sum += tol_cell[i];
    }
    let routes: Vec<(&str, Vec<f64>)> = {
        let mut r = vec![];
        let v = obs::build_full(c);
        r.push(("Voronoi::build", v.cells().iter().map(|x| x.volume()).collect()));
        r.push(("VolumeIntegral", vi.compute_cell_integrals::<VolumeIntegral>().into_iter().map(|x| x.volume).collect()));
        if c.dim == 3 && kmax < 1e3 {
            let vf = vi.clone().with_faces();
            r.push(("VolumeIntegral/with_faces", vf.compute_cell_integrals::<VolumeIntegral>().into_iter().map(|x| x.volume).collect()));
        }
        r
    };
    for (name, vols) in &routes {
        if vols.len() != n {
            return Err(format!("{name}: {} volumes for {n} generators", vols.len()));
        }
        let mut tot = 0.;
        for (i, v) in vols.iter().enumerate() {
            // strictly positive up to rounding: a cell thinner than the rounding error of the
            // decomposition (tight clusters) may come out as a tiny non-positive number
            if !v.is_finite() {
                return Err(format!("{name}: cell {i} has a non-finite measure {v}"));
            }
            if unresolvable {
                // ill-posed input (refcmp::unresolvable): only finiteness is claimed
                continue;
            }
            if !(v.is_finite() && *v > -tol_cell[i]) {
                return Err(format!("{name}: cell {i} has measure {v:e} (must be finite and positive; rounding allowance {:e})", tol_cell[i]));
            }
            if *v <= 0. {
                cs.count("cells_nonpositive_within_rounding", 1);
            }
            tot += v;
        }
        if unresolvable {
            continue;
        }
        let diff = (tot - boxm).abs();
        cs.max("tile_diff_over_tol", diff / tol_sum);
        cs.max("tile_rel_diff", diff / boxm);
        if let Ok(t) = std::env::var("MVV_C02_STRICT") {
            if diff / boxm > t.parse::<f64>().unwrap_or(1e-6) {
                return Err(format!("STRICT {name}: rel diff {:e} tol_sum/box {:e}", diff / boxm, tol_sum / boxm));
            }
        }
        if diff > tol_sum {
            return Err(format!("{name}: measures sum to {tot:e}, box measure is {boxm:e} (diff {diff:e} > tol {tol_sum:e}, kappa_max {kmax:e})"));
        }
    }
    let asp = c.max_active_width() / c.min_active_width();
    let off = (0..c.d()).map(|k| c.anchor[k].abs() / c.width[k]).fold(0., f64::max);
    if n >= 2 && !unresolvable && (c.periodic || c.dim < 3 || off > 2. || asp >= 8.) {
        cs.nt();
    }
    cs.count("cells", n as u64);
    Ok(())
}

pub fn def() -> PropDef {
    PropDef {
        id: "C02",
        rule: "cases: all point-set families (uniform, clusters, lattices, wall points, co-spherical, coplanar, dyadic, shared-coordinate, n=1/2), dims 1-3, periodic or not, n up to 600 (quick) / 4000 (thorough), aspect to 2^14, offsets to 2^30, garbage in unused axes; oracle: every measure finite and > 0 and the sum equals the box measure within eps_pos*kappa*ball_surface(safety_radius/2) summed over cells + 1e-11*box, on three routes (Voronoi::build, VolumeIntegral, VolumeIntegral on cells with faces in 3D). non-trivial: n >= 2 and outside what the suite's consistency_check asserts (periodic or dim < 3 or |anchor|/width > 2 or aspect >= 8); distinct by case hash.",
        strategy,
        check,
        cases: |t| t.pick(6000, 300_000),
        profiles: &["release"],
        required: &["dim1", "dim2", "dim3", "periodic", "reflective", "aspect>=64", "offset>=2^10", "n=1", "n=2", "n=41..400", "fam:C"],
        fixed: None,
        assumptions: &["valid input: generators in the closed box, pairwise separated by >= 2^-44 * coordinate scale (modulo the period)", "tolerance model of DESIGN.md section 4.2"],
    }
}
