//! C07 — partial construction equals the full tessellation restricted to the mask.
use crate::case::Case;
use crate::gen::{self, GenOpts, MaskMode};
use crate::obs::{self, ObsVoronoi};
use crate::runner::{CaseStats, Failure, PropDef, Stats, Tier};
use crate::tol;
use proptest::strategy::BoxedStrategy;
use std::collections::BTreeMap;

fn strategy(tier: Tier) -> BoxedStrategy<Case> {
    gen::case_strategy(GenOpts { max_n: tier.pick(200, 400), big_n_weight: 1, masks: MaskMode::Always, max_offset_log2: 12, ..GenOpts::default() })
}

/// (other side, shift bits, wall id for boundary faces)
type Key = (Option<usize>, Option<[u64; 3]>, u8);

fn wall_id(f: &obs::ObsFace) -> u8 {
    if f.right.is_some() {
        return 0;
    }
    let n = f.normal;
    let k = (0..3).max_by(|&a, &b| n[a].abs().partial_cmp(&n[b].abs()).unwrap()).unwrap();
    1 + 2 * k as u8 + if n[k] > 0. { 1 } else { 0 }
}

/// Faces of cell i as (other side, shift as seen from i) -> area, from the compact structure.
fn faces_of(o: &ObsVoronoi, i: usize) -> BTreeMap<Key, (f64, bool)> {
    let mut m = BTreeMap::new();
    for &k in &o.cells[i].face_indices {
        let f = &o.faces[k];
        let key: Key = if f.left == i {
            (f.right, f.shift.map(|s| [s[0].to_bits(), s[1].to_bits(), s[2].to_bits()]), wall_id(f))
        } else {
            (Some(f.left), None, 0)
        };
        m.insert(key, (f.area, f.left == i));
    }
    m
}

/// Conditioning of every cell of the full tessellation (max over its vertices).
pub fn kappas(c: &Case) -> Vec<(f64, f64, f64)> {
    // (conditioning, position uncertainty, extent) of every cell of the FULL build
    let vi = obs::integrator(c, None);
    crate::cellinfo::cell_infos(c, &vi).into_iter().map(|i| i.map_or((1., 0., 0.), |i| (i.kappa, i.pos, i.r))).collect()
}

pub fn compare(c: &Case, full: &ObsVoronoi, kappa: &[(f64, f64, f64)], mask: &[bool], cs: &mut CaseStats) -> Result<bool, String> {
    let n = c.n();
    let part = obs::observe(&obs::build_partial(c, mask));
    let vi = obs::integrator(c, Some(mask));
    let thr = tol::face_threshold(c);
    let mut it = vi.cells_iter();
    let mut interesting = false;
    // the agreement of the two sides of a face is only defined for arrangements that are
    // determined up to rounding (same exemption as C03; bitwise comparisons and the
    // bookkeeping rules below apply to every input)
    let unresolvable = crate::refcmp::unresolvable(c);
    if unresolvable {
        cs.label("unresolvable-arrangement");
    }
    for i in 0..n {
        let (f, p) = (&full.cells[i], &part.cells[i]);
        if vi.get_cell_at(i).is_some() != mask[i] {
            return Err(format!("integrator: get_cell_at({i}).is_some() = {} but mask[{i}] = {}", !mask[i], mask[i]));
        }
        if !mask[i] {
            if p.volume != 0. || p.centroid != [0.; 3] {
                return Err(format!("unselected cell {i} reports volume {:e} centroid {:?}", p.volume, p.centroid));
            }
            continue;
        }
        match it.next() {
            Some(cell) if cell.idx == i => {}
            other => return Err(format!("cells_iter does not yield selected cells in ascending order (expected {i}, got {:?})", other.map(|c| c.idx))),
        }
        if f.volume.to_bits() != p.volume.to_bits() || f.centroid != p.centroid || f.loc != p.loc || f.safety_radius.to_bits() != p.safety_radius.to_bits() {
            return Err(format!("selected cell {i}: (volume, centroid, loc, safety radius) = ({:e}, {:?}, {:?}, {:e}) in the partial build, ({:e}, {:?}, {:?}, {:e}) in the full build", p.volume, p.centroid, p.loc, p.safety_radius, f.volume, f.centroid, f.loc, f.safety_radius));
        }
        // same set of faces (neighbour, shift); areas up to rounding
        let (ff, pf) = (faces_of(full, i), faces_of(&part, i));
        for (k, (a, a_own)) in &ff {
            match pf.get(k) {
                Some((b, b_own)) => {
                    if a_own == b_own {
                        // integrated from the same side in both builds: the same computation
                        if a.to_bits() != b.to_bits() {
                            return Err(format!("selected cell {i}: face {:?} integrated from the same side has area {:e} in the partial and {:e} in the full build", k, b, a));
                        }
                        cs.count("faces_compared_bitwise", 1);
                    } else {
                        // integrated from the other side in one of the builds: agreement of the
                        // two sides up to rounding is the subject of C03 (sharper tolerance there)
                        // (same tolerance model as C03: position uncertainty of both cells x perimeter bound)
                        let (pos, r) = match k.0 {
                            Some(j) => (kappa[i].1 + kappa[j].1, kappa[i].2.min(kappa[j].2)),
                            None => (2. * kappa[i].1, kappa[i].2),
                        };
                        let tola = pos * crate::cellinfo::face_perimeter_bound(c.d(), r) + 1e-9 * a.abs();
                        let well = kappa[i].0 <= tol::KAPPA_WELL && k.0.map_or(true, |j| kappa[j].0 <= tol::KAPPA_WELL) && !tol::lowdim_area_unreliable(c);
                        if unresolvable {
                            cs.count("faces_other_side_skipped_unresolvable_arrangement", 1);
                        } else if !well {
                            cs.count("faces_other_side_skipped_ill_conditioned", 1);
                        } else if (a - b).abs() > tola {
                            return Err(format!("selected cell {i}: face {:?} has area {:e} in the partial and {:e} in the full build", k, b, a));
                        }
                        cs.count("faces_compared_other_side", 1);
                    }
                }
                None => {
                    // (a sliver that one side integrates to rounding noise may be absent on the other)
                    let slack = match k.0 {
                        Some(j) => (kappa[i].1 + kappa[j].1) * crate::cellinfo::face_perimeter_bound(c.d(), kappa[i].2.min(kappa[j].2)),
                        None => 2. * kappa[i].1 * crate::cellinfo::face_perimeter_bound(c.d(), kappa[i].2),
                    };
                    if *a > thr + slack {
                        return Err(format!("selected cell {i}: face towards {:?} (area {:e}) of the full build is absent from the partial build", k, a));
                    }
                }
            }
        }
        for (k, (b, _)) in &pf {
            let slack = match k.0 {
                Some(j) => (kappa[i].1 + kappa[j].1) * crate::cellinfo::face_perimeter_bound(c.d(), kappa[i].2.min(kappa[j].2)),
                None => 2. * kappa[i].1 * crate::cellinfo::face_perimeter_bound(c.d(), kappa[i].2),
            };
            if !ff.contains_key(k) && *b > thr + slack {
                return Err(format!("selected cell {i}: face towards {:?} (area {:e}) is absent from the full build", k, b));
            }
        }
        if let Some(j) = ff.keys().filter_map(|k| k.0).find(|&j| !mask[j] && j < i) {
            let _ = j;
            interesting = true;
        }
    }
    if it.next().is_some() {
        return Err("cells_iter yields more cells than the mask selects".into());
    }
    // the symmetric face integrals of the partial integrator follow the same bookkeeping rule as
    // the stored faces of the partial tessellation: same multiset of (left, right, shift)
    {
        use meshless_voronoi::integrals::AreaCentroidIntegral;
        let mut a: Vec<(usize, Option<usize>, Option<[u64; 3]>)> = vi
            .compute_face_integrals_sym::<AreaCentroidIntegral>()
            .iter()
            .map(|f| (f.left(), f.right(), f.shift().map(|s| [(s.x + 0.).to_bits(), (s.y + 0.).to_bits(), (s.z + 0.).to_bits()])))
            .collect();
        let mut b: Vec<(usize, Option<usize>, Option<[u64; 3]>)> = part.faces.iter().map(|f| (f.left, f.right, f.shift.map(|s| [(s[0] + 0.).to_bits(), (s[1] + 0.).to_bits(), (s[2] + 0.).to_bits()]))).collect();
        a.sort();
        b.sort();
        if a != b {
            let only_a: Vec<_> = a.iter().filter(|x| !b.contains(x)).take(3).collect();
            let only_b: Vec<_> = b.iter().filter(|x| !a.contains(x)).take(3).collect();
            return Err(format!("the symmetric face integrals of the partial integrator and the stored faces of build_partial are different sets of (left, right, shift): only in the integrals {:?}, only in the stored faces {:?}", only_a, only_b));
        }
        cs.count("sym_integral_face_sets_compared", 1);
    }
    // stored faces
    let mut seen: BTreeMap<(usize, Key), usize> = BTreeMap::new();
    for f in &part.faces {
        if !mask[f.left] {
            return Err(format!("stored face with unselected left cell {} (right {:?})", f.left, f.right));
        }
        let key: Key = (f.right, f.shift.map(|s| [s[0].to_bits(), s[1].to_bits(), s[2].to_bits()]), wall_id(f));
        *seen.entry((f.left, key)).or_insert(0) += 1;
    }
    if let Some((k, cnt)) = seen.iter().find(|(_, &v)| v > 1) {
        return Err(format!("face {:?} is stored {cnt} times", k));
    }
    // each selected-unselected adjacency of the full build (above threshold) appears with the
    // selected cell on the left
    for f in &full.faces {
        if f.area <= thr || f.shift.is_some() {
            continue;
        }
        if let Some(r) = f.right {
            let (l, r) = (f.left, r);
            let pair = if mask[l] && !mask[r] {
                Some((l, r))
            } else if mask[r] && !mask[l] {
                Some((r, l))
            } else {
                None
            };
            if let Some((s, u)) = pair {
                // (the same rounding slack as for the presence test above: a sliver that the
                // lower-index side integrates to a small positive area may come out as rounding
                // noise <= 0 from the selected side, which is then not stored)
                let slack = (kappa[s].1 + kappa[u].1) * crate::cellinfo::face_perimeter_bound(c.d(), kappa[s].2.min(kappa[u].2));
                if f.area <= thr + slack {
                    cs.count("adjacencies_below_rounding_slack", 1);
                    continue;
                }
                if !seen.contains_key(&(s, (Some(u), None, 0))) {
                    return Err(format!("adjacency selected {s} / unselected {u} (area {:e} in the full build) is not stored with the selected cell on the left", f.area));
                }
                cs.count("selected_unselected_faces", 1);
            }
        }
    }
    Ok(interesting)
}

pub fn check(c: &Case, cs: &mut CaseStats) -> Result<(), String> {
    gen::classify(c, cs);
    if !gen::is_valid(c) {
        return Err("INFRA: generator produced an invalid case".into());
    }
    let mask = c.mask.clone().unwrap_or(vec![true; c.n()]);
    let full = obs::observe(&obs::build_full(c));
    let kappa = kappas(c);
    let interesting = compare(c, &full, &kappa, &mask, cs)?;
    if interesting {
        cs.label("selected-with-lower-unselected-neighbour");
    }
    if cs.labels.contains("mask:mixed") && interesting {
        cs.nt();
    }
    Ok(())
}

/// Exhaustive part: all 2^n masks for small inputs.
fn fixed(tier: Tier, stats: &mut Stats) -> Result<(), Failure> {
    let (inputs, max_n) = tier.pick((30usize, 6usize), (300, 10));
    let strat = gen::case_strategy(GenOpts { max_n, masks: MaskMode::Never, max_offset_log2: 8, ..GenOpts::default() });
    let cases = crate::runner::sample_strategy(&strat, 4242, inputs);
    let mut total = 0u64;
    for base in cases {
        let n = base.n();
        let full = obs::observe(&obs::build_full(&base));
        for bits in 0..(1u32 << n) {
            let mut c = base.clone();
            c.mask = Some((0..n).map(|i| bits >> i & 1 == 1).collect());
            let (r, mut cs) = crate::runner::eval(
                |c, cs| {
                    let full = obs::observe(&obs::build_full(c));
                    let kappa = kappas(c);
                    compare(c, &full, &kappa, c.mask.as_ref().unwrap(), cs).map(|i| {
                        if i {
                            cs.nt();
                        }
                    })
                },
                &c,
            );
            let _ = &full;
            cs.label("exhaustive-masks");
            total += 1;
            let h = c.hash64();
            stats.absorb(h, cs, None);
            if let Err(m) = r {
                return Err(Failure { message: m, case: Some(c) });
            }
        }
    }
    stats.counters.insert("exhaustive_mask_builds".into(), total);
    stats.exhaustive = false; // exhaustive over masks per input, not over inputs
    Ok(())
}

pub fn def() -> PropDef {
    PropDef {
        id: "C07",
        rule: "cases: all families x masks (always Some: all-true, all-false, single, complement, prefix, Bernoulli), dims 1-3, periodic or not, n to 200 (quick) / 400 (thorough); plus ALL 2^n masks of 30 inputs with n <= 6 (quick) / 300 inputs with n <= 10 (thorough); oracle (differential against the full build of the same input): selected cells bitwise equal volume, centroid, loc, safety radius; equal set of faces (neighbour, shift) with areas up to rounding; unselected cells volume = centroid = 0; get_cell_at(i).is_none() iff unselected; cells_iter ascending; no stored face with an unselected left, none stored twice, every selected/unselected adjacency of the full build stored with the selected cell on the left. non-trivial: mask mixed and some selected cell has an unselected neighbour with a lower index; distinct by case hash.",
        strategy,
        check,
        cases: |t| t.pick(3000, 50_000),
        profiles: &["release"],
        required: &["mask:mixed", "mask:all-false", "mask:all-true", "selected-with-lower-unselected-neighbour", "exhaustive-masks", "periodic", "dim1", "dim2"],
        fixed: Some(fixed),
        assumptions: &["valid input as in C01"],
    }
}
