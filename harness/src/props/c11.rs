//! C11 — all arbitrary-precision backends give identical results.
//!
//! The same binary is built four times (ibig = this process, dashu, malachite, num_bigint;
//! rug cannot be built offline). Every generated case is sent to the three other builds; the
//! bit-exact dump of the tessellation, the number of exact-predicate invocations and zeros, and
//! the predicate's sign on a batch of integer 5-tuples must agree pairwise, and the signs must
//! equal the harness' own determinant (so "all four equally wrong" is excluded).
use crate::case::Case;
use crate::exact::insphere_sign;
use crate::runner::{CaseStats, Failure, PropDef, Stats, Tier};
use crate::serve;
use proptest::prelude::*;
use proptest::strategy::BoxedStrategy;
use serde_json::{json, Value};

const BACKENDS: [&str; 3] = ["dashu", "malachite", "num_bigint"];
const MAXC: i64 = (1i64 << 52) - 1;

fn strategy(tier: Tier) -> BoxedStrategy<Case> {
    (super::c05::strategy(tier), proptest::collection::vec(super::c10::tuple_strategy(), 8))
        .prop_map(|(mut c, tuples)| {
            c.mask = None;
            c.aux_f.clear();
            c.aux_i = tuples.into_iter().flatten().map(|x| x.clamp(0, MAXC)).collect();
            c
        })
        .boxed()
}

/// Compare this process (ibig) with the three other builds on one request.
fn compare(c: &Case, cs: &mut CaseStats) -> Result<(), String> {
    let req = json!({ "case": c.to_json() });
    let own = serve::answer(&req);
    let mut answers: Vec<(&str, Value)> = vec![("ibig", own)];
    for b in BACKENDS {
        answers.push((b, serve::ask(b, 1, &req)?));
    }
    for (b, a) in &answers {
        if let Some(e) = a.get("error") {
            return Err(format!("INFRA: backend {b}: {e}"));
        }
    }
    let (b0, a0) = (&answers[0].0, &answers[0].1);
    for (b, a) in &answers[1..] {
        match (a0.get("panic"), a.get("panic")) {
            (None, None) => {}
            (Some(p), Some(q)) if p == q => continue,
            (p, q) => return Err(format!("backend {b0} {} but backend {b} {}", p.map_or("completed".to_string(), |m| format!("panicked ({m})")), q.map_or("completed".to_string(), |m| format!("panicked ({m})")))),
        }
        if a0["signs"] != a["signs"] {
            let (x, y) = (a0["signs"].as_array().cloned().unwrap_or_default(), a["signs"].as_array().cloned().unwrap_or_default());
            let k = x.iter().zip(&y).position(|(p, q)| p != q).unwrap_or(0);
            return Err(format!("the exact in-sphere predicate returns {} with backend {b0} and {} with backend {b} for the tuple {:?}", x.get(k).unwrap_or(&Value::Null), y.get(k).unwrap_or(&Value::Null), &c.aux_i[15 * k..(15 * k + 15).min(c.aux_i.len())]));
        }
        let (d0, d1) = (serve::parse_digests(&a0["sections"]), serve::parse_digests(&a["sections"]));
        if let Some(d) = serve::first_difference(&d0, &d1) {
            return Err(format!("the tessellation built with backend {b} differs from the one built with {b0}: {d}"));
        }
        if a0["exact"] != a["exact"] {
            return Err(format!("backend {b0} consulted the exact predicate {} times (zeros), backend {b} {}", a0["exact"], a["exact"]));
        }
    }
    if let Some(p) = a0.get("panic") {
        // identical panic in all four builds: construction is C05's business
        cs.count("cases_panicking_identically_in_all_backends", 1);
        return Err(format!("panic: {} (identically in all backends)", p.as_str().unwrap_or("?")));
    }
    // the signs against the harness' own determinant
    let signs = a0["signs"].as_array().cloned().unwrap_or_default();
    let mut zeros = 0u64;
    for (k, t) in c.aux_i.chunks_exact(15).enumerate() {
        let p = |q: usize| [t[3 * q], t[3 * q + 1], t[3 * q + 2]];
        let want = insphere_sign(&p(0), &p(1), &p(2), &p(3), &p(4)) as i64;
        let got = signs.get(k).and_then(|v| v.as_i64()).unwrap_or(99);
        if got != want {
            return Err(format!("all backends return {got} for the tuple {:?}, the exact determinant has sign {want}", t));
        }
        if want == 0 {
            zeros += 1;
        }
    }
    cs.count("tuples_compared_across_backends", (c.aux_i.len() / 15) as u64);
    cs.count("tuples_det_zero", zeros);
    let calls = a0["exact"][0].as_u64().unwrap_or(0);
    cs.count("exact_calls", calls);
    cs.count("exact_zeros", a0["exact"][1].as_u64().unwrap_or(0));
    if calls > 0 {
        cs.label("exact-path");
    }
    if zeros > 0 {
        cs.label("det-zero");
    }
    Ok(())
}

pub fn check(c: &Case, cs: &mut CaseStats) -> Result<(), String> {
    if !c.gens.is_empty() {
        crate::gen::classify(c, cs);
        if !crate::gen::is_valid(c) {
            return Err("INFRA: generator produced an invalid case".into());
        }
    }
    compare(c, cs)?;
    if cs.labels.contains("exact-path") || cs.labels.contains("det-zero") {
        cs.nt();
    }
    Ok(())
}

/// exhaustive: all 5-tuples of a small grid at several offsets, sent in batches
fn fixed(tier: Tier, stats: &mut Stats) -> Result<(), Failure> {
    let side: i64 = tier.pick(2, 3);
    let offsets: Vec<i64> = tier.pick(vec![0, MAXC - 1], vec![0, MAXC - 2]);
    let pts: Vec<[i64; 3]> = (0..side.pow(3)).map(|i| [i % side, (i / side) % side, i / (side * side)]).collect();
    let np = pts.len();
    let mut total = 0u64;
    let mut cs_all = CaseStats::default();
    for &off in &offsets {
        let p: Vec<[i64; 3]> = pts.iter().map(|q| [q[0] + off, q[1] + off, q[2] + off]).collect();
        let mut idx = [0usize; 5];
        let mut batch: Vec<i64> = Vec::with_capacity(15 * 4096);
        let mut done = false;
        while !done {
            for q in 0..5 {
                batch.extend(p[idx[q]]);
            }
            let mut k = 0;
            loop {
                idx[k] += 1;
                if idx[k] < np {
                    break;
                }
                idx[k] = 0;
                k += 1;
                if k == 5 {
                    done = true;
                    break;
                }
            }
            if batch.len() >= 15 * 4096 || done {
                let mut c = Case::default();
                c.aux_i = std::mem::take(&mut batch);
                total += (c.aux_i.len() / 15) as u64;
                let mut cs = CaseStats::default();
                if let Err(m) = compare(&c, &mut cs) {
                    return Err(Failure { message: m, case: Some(c) });
                }
                for (k, v) in cs.counters {
                    *cs_all.counters.entry(k).or_insert(0) += v;
                }
            }
        }
    }
    cs_all.label("exhaustive-small-grid");
    stats.absorb(0xE11, cs_all, Some(json!({"exhaustive": format!("all {np}^5 5-tuples of the {side}x{side}x{side} grid at offsets {:?}, every backend", offsets), "tuples": total})));
    stats.evaluations += total - 1;
    stats.exhaustive = true;
    Ok(())
}

pub fn def() -> PropDef {
    PropDef {
        id: "C11",
        rule: "builds: this binary with the library's backend feature ibig (default) and three further copies built with dashu, malachite, num_bigint (rug needs GMP's build chain and cannot be built offline). cases: the degenerate-weighted stream of C05 (exact / perturbed lattices, wall points, co-spherical, coplanar, dyadic, clusters, rounding-level lattices; all dimensionalities, periodic or not) so that the exact path is really taken, each carrying 8 integer 5-tuples from the C10 tuple generator (random 52-bit, exactly co-spherical +-1, coplanar, repeated points, small grids at large offsets); plus EXHAUSTIVELY all 5-tuples of the 2x2x2 grid at offsets 0 and 2^52-2 (quick) / 3x3x3 at 0 and 2^52-3 (thorough). oracle: pairwise identical across the four builds: bit-exact dump of the tessellation (all sections of C09), number of exact-predicate invocations and of exact zeros (hook counter), predicate sign per tuple; and the signs equal the harness' independent big-integer determinant. non-trivial: the exact predicate was consulted while building, or a tuple with determinant zero; distinct by case hash.",
        strategy,
        check,
        cases: |t| t.pick(1500, 60_000),
        profiles: &["release"],
        required: &["exact-path", "det-zero", "exhaustive-small-grid"],
        fixed: Some(fixed),
        assumptions: &["rug is not compared (cannot be built in the sandbox)", "the harness' Bareiss determinant over num-bigint (validated in C10)"],
    }
}
