//! C18 — clipping a cell is independent of vertex storage order.
//!
//! History: a cell reachable by the builder (box + the first K candidates of the production
//! neighbour iterator, clipped through the hook `cell_clip` = `ConvexCell::clip_by_plane`), then
//! one more plane (the next candidate, or the bisector with an extra site placed close to the
//! generator so that many vertices are removed). The clip is repeated for ALL permutations of the
//! to-be-removed vertices (<= 7 of them; 2000 sampled orders above that) with the kept vertices
//! shuffled and every `dual` triple rotated at random, for all permutations of the whole vertex
//! array when it has <= 7 entries, and the history itself is replayed with a fresh permutation
//! and rotation before every clip. All results must be the same polytope.
use crate::case::Case;
use crate::gen::{self, Fam, GenOpts};
use crate::runner::{CaseStats, PropDef, Tier};
use glam::DVec3;
use meshless_voronoi::integrals::VolumeCentroidIntegral;
use meshless_voronoi::verif_hooks as hooks;
use meshless_voronoi::{ConvexCell, HalfSpace, WithoutFaces};
use proptest::prelude::*;
use proptest::strategy::BoxedStrategy;
use std::collections::{BTreeMap, BTreeSet};

const FAMS: &[(u32, Fam)] = &[(4, Fam::U), (3, Fam::K), (2, Fam::L0), (1, Fam::L1), (2, Fam::Lp), (2, Fam::Lb), (1, Fam::B), (2, Fam::S), (1, Fam::P), (1, Fam::D), (2, Fam::E)];

fn strategy(_tier: Tier) -> BoxedStrategy<Case> {
    let base = gen::case_strategy(GenOpts { max_n: 60, big_n_weight: 2, fams: FAMS.to_vec(), max_offset_log2: 10, max_aspect_log2: 6, ..GenOpts::default() });
    // 2 % ring inputs (family "R"): a generator at the centre of a ring of m = 12 .. 130 coplanar
    // neighbours (a prism with 2 m vertices after the ring has clipped it) and a farther
    // neighbour straight above whose bisector removes all m top vertices in ONE clip - removed
    // sets an order of magnitude larger than anything the other families produce
    let ring = (12usize..=130, 0.05f64..0.2, 0.0f64..1.0, prop_oneof![Just(0.0f64), 0.0f64..0.05], 1.2f64..2.5).prop_map(|(m, radius, rot, jitter, lift)| ring_case(m, radius, rot, jitter, lift));
    (prop_oneof![49 => base, 1 => ring], proptest::collection::vec(0.0f64..1.0, 8), any::<u32>())
        .prop_map(|(mut c, mut a, seed)| {
            if c.family == "R" {
                a[0] = 0.; // the cell of the central generator
            }
            c.aux_f = a;
            c.aux_i = vec![seed as i64];
            c
        })
        .boxed()
}

/// Ring input: generator 0 at the centre of the unit cube, m generators on a (jittered) circle of
/// the given radius around it in the plane z = 0.5, one generator straight above at `lift` radii.
pub fn ring_case(m: usize, radius: f64, rot: f64, jitter: f64, lift: f64) -> Case {
    let mut c = Case { dim: 3, periodic: false, family: "R".into(), ..Case::default() };
    c.anchor = [0.; 3];
    c.width = [1.; 3];
    c.gens.push([0.5, 0.5, 0.5]);
    for k in 0..m {
        let phi = 2. * std::f64::consts::PI * (k as f64 + rot) / m as f64;
        // deterministic radial jitter in [1 - jitter, 1 + jitter]
        let h = ((k as u64).wrapping_mul(0x9E37_79B9_7F4A_7C15) >> 11) as f64 / (1u64 << 53) as f64;
        let r = radius * (1. + jitter * (2. * h - 1.));
        c.gens.push([0.5 + r * phi.cos(), 0.5 + r * phi.sin(), 0.5]);
    }
    c.gens.push([0.5, 0.5, (0.5 + lift * radius * 1.06).min(1.)]);
    gen::repair_distinct(&mut c);
    c
}

type Triple = [usize; 3];
fn norm(t: Triple) -> Triple {
    let m = (0..3).min_by_key(|&i| t[i]).unwrap();
    [t[m], t[(m + 1) % 3], t[(m + 2) % 3]]
}

struct Rng(u64);
impl Rng {
    fn next(&mut self) -> u64 {
        self.0 ^= self.0 << 13;
        self.0 ^= self.0 >> 7;
        self.0 ^= self.0 << 17;
        self.0
    }
    fn below(&mut self, n: usize) -> usize {
        (self.next() % n as u64) as usize
    }
    fn shuffle<T>(&mut self, v: &mut [T]) {
        for i in (1..v.len()).rev() {
            let j = self.below(i + 1);
            v.swap(i, j);
        }
    }
}

/// canonical form of a cell: rotation-normalised triple -> location
fn canon(cell: &ConvexCell<WithoutFaces>) -> BTreeMap<Triple, [u64; 3]> {
    cell.vertices.iter().map(|v| (norm(v.dual), [v.loc.x.to_bits(), v.loc.y.to_bits(), v.loc.z.to_bits()])).collect()
}

/// closed polytope: three distinct planes per vertex, every directed plane pair (a, b) that occurs
/// as consecutive entries of a triple occurs exactly once and so does (b, a)
fn closed(cell: &ConvexCell<WithoutFaces>) -> Result<(), String> {
    let mut pairs: BTreeMap<(usize, usize), u32> = BTreeMap::new();
    let np = cell.clipping_planes.len();
    for v in &cell.vertices {
        let t = v.dual;
        if t[0] == t[1] || t[1] == t[2] || t[0] == t[2] {
            return Err(format!("vertex with a repeated plane: {:?}", t));
        }
        if t.iter().any(|&p| p >= np) {
            return Err(format!("vertex refers to plane {:?} but the cell has {np} planes", t));
        }
        for k in 0..3 {
            *pairs.entry((t[k], t[(k + 1) % 3])).or_insert(0) += 1;
        }
    }
    for (&(a, b), &cnt) in &pairs {
        if cnt != 1 {
            return Err(format!("directed edge ({a},{b}) occurs {cnt} times"));
        }
        if pairs.get(&(b, a)).copied().unwrap_or(0) != 1 {
            return Err(format!("directed edge ({a},{b}) has no unique opposite ({b},{a}): the surface is not closed"));
        }
    }
    Ok(())
}

fn volume(cell: &ConvexCell<WithoutFaces>) -> f64 {
    cell.compute_cell_integral::<(), VolumeCentroidIntegral>(()).volume
}

fn rotate_all(cell: &mut ConvexCell<WithoutFaces>, rng: &mut Rng) {
    for v in cell.vertices.iter_mut() {
        let r = rng.below(3);
        v.dual.rotate_left(r);
    }
}

fn permutations(k: usize) -> Vec<Vec<usize>> {
    // Heap's algorithm
    let mut out = vec![];
    let mut a: Vec<usize> = (0..k).collect();
    let mut c = vec![0usize; k];
    out.push(a.clone());
    let mut i = 0;
    while i < k {
        if c[i] < i {
            if i % 2 == 0 {
                a.swap(0, i);
            } else {
                a.swap(c[i], i);
            }
            out.push(a.clone());
            c[i] += 1;
            i = 0;
        } else {
            c[i] = 0;
            i += 1;
        }
    }
    out
}

pub fn check(c: &Case, cs: &mut CaseStats) -> Result<(), String> {
    gen::classify(c, cs);
    if !gen::is_valid(c) {
        return Err("INFRA: generator produced an invalid case".into());
    }
    if c.aux_f.len() < 8 || c.aux_i.is_empty() {
        return Err("INFRA: aux too short".into());
    }
    let n = c.n();
    let d = c.d();
    let mut rng = Rng((c.aux_i[0] as u64).wrapping_mul(0x9E37_79B9_7F4A_7C15) | 1);
    let a = DVec3::from_array(c.eff_anchor());
    let w = DVec3::from_array(c.eff_width());
    let grid = hooks::Grid::new(a, w, c.periodic, c.dimensionality());
    let i = ((c.aux_f[0] * n as f64) as usize).min(n - 1);
    // the extra site: close to the generator (relative to the box), inside the box
    let gi = c.eff_gens()[i];
    let mut extra = gi;
    let reach = 10f64.powf(-3. * c.aux_f[2]); // 1 .. 1e-3 of the width
    for k in 0..d {
        let off = (c.aux_f[3 + k] - 0.5) * reach * w[k];
        extra[k] = (gi[k] + off).max(a[k]).min(a[k] + w[k]);
    }
    let mut locs = c.gens_v();
    let extra_ok = {
        let e = extra;
        c.gens.iter().all(|h| gen::active_dist(c, h, &e) >= gen::sep_min(c))
    };
    if extra_ok {
        locs.push(DVec3::from_array(extra));
    }
    let generators = hooks::make_generators(&locs, c.dimensionality());
    // candidate sequence of the production iterator for the ORIGINAL generators
    let ring = c.family == "R";
    let cap = if ring { n } else { 40usize };
    let seq = hooks::nn_sequence(&c.gens_v(), i, c.dimensionality(), c.periodic, w, cap + 1);
    if seq.is_empty() || seq[0].0 != i {
        return Err("the candidate sequence does not start with the generator itself (C17)".into());
    }
    let seq = &seq[1..];
    let loc = generators[i].loc();
    let half_space = |j: usize, shift: Option<DVec3>| -> HalfSpace {
        let ngb = generators[j].loc() + shift.unwrap_or(DVec3::ZERO);
        let dx = loc - ngb;
        let dist = dx.length();
        HalfSpace::new(dx / dist, 0.5 * (loc + ngb), Some(j), shift)
    };
    // ---- the history: K clips in builder order
    // (ring inputs: the whole ring clips first, the generator above it is the next plane)
    let k_clips = if ring { n.saturating_sub(2).min(seq.len()) } else { ((c.aux_f[1] * 13.) as usize).min(12).min(seq.len()) };
    let mut cell = hooks::cell_init(loc, i, &grid);
    let mut twin = hooks::cell_init(loc, i, &grid); // replayed with a permutation before every clip
    for (j, s) in &seq[..k_clips] {
        hooks::cell_clip(&mut cell, half_space(*j, *s), &generators, &grid);
        rng.shuffle(&mut twin.vertices);
        rotate_all(&mut twin, &mut rng);
        hooks::cell_clip(&mut twin, half_space(*j, *s), &generators, &grid);
    }
    closed(&cell).map_err(|e| format!("cell {i} after {k_clips} clips in builder order: {e}"))?;
    if canon(&twin) != canon(&cell) {
        return Err(format!("cell {i}: replaying the same {k_clips} clips with the vertex array shuffled and the triples rotated before every clip gives a different polytope ({} vs {} vertices)", twin.vertices.len(), cell.vertices.len()));
    }
    cs.count("history_clips", k_clips as u64);
    // ---- the next plane
    let use_extra = extra_ok && c.aux_f[6] < 0.6 && !ring;
    let plane = if use_extra {
        half_space(n, None)
    } else if k_clips < seq.len() {
        half_space(seq[k_clips].0, seq[k_clips].1)
    } else if extra_ok {
        half_space(n, None)
    } else {
        cs.label("no-next-plane");
        return Ok(());
    };
    cs.label(if use_extra { "plane:extra-site" } else { "plane:next-candidate" });
    let mut base = cell.clone();
    hooks::cell_clip(&mut base, plane.clone(), &generators, &grid);
    closed(&base).map_err(|e| format!("cell {i} after the final clip (storage order of the builder): {e}"))?;
    let want = canon(&base);
    let want_vol = volume(&base);
    // "the same volume" up to rounding: vertices on nearly dependent planes (co-spherical sites)
    // are only determined up to their conditioning, and which end points of a degenerate edge
    // the new vertex is brought back onto depends on the storage order
    let kappa = crate::obs::vertex_kappa(&base).into_iter().fold(1., f64::max);
    let r_cell = 0.5 * hooks::cell_safety_radius(&base);
    let vol_tol = crate::tol::eps_pos(c) * kappa.min(crate::tol::KAPPA_CAP) * crate::cellinfo::ball_surface(d, r_cell) + 1e-11 * want_vol.abs() + 1e-300;
    cs.label(if kappa <= 1e3 { "well-conditioned-result" } else { "ill-conditioned-result" });
    let before: BTreeSet<Triple> = cell.vertices.iter().map(|v| norm(v.dual)).collect();
    let removed: Vec<usize> = (0..cell.vertices.len()).filter(|&k| !want.contains_key(&norm(cell.vertices[k].dual))).collect();
    let kept: Vec<usize> = (0..cell.vertices.len()).filter(|&k| want.contains_key(&norm(cell.vertices[k].dual))).collect();
    let _ = before;
    let r = removed.len();
    cs.label(format!("removed={}", match r {
        0 => "0".to_string(),
        1..=2 => "1-2".to_string(),
        3..=7 => format!("{r}"),
        8..=64 => ">7".to_string(),
        _ => ">64".to_string(),
    }));
    cs.max("max_removed", r as f64);
    if r == 0 {
        return Ok(());
    }
    // removed set connected? (vertices sharing two planes are adjacent)
    {
        let mut seen = vec![false; r];
        let mut stack = vec![0usize];
        seen[0] = true;
        while let Some(x) = stack.pop() {
            for y in 0..r {
                if !seen[y] {
                    let (tx, ty) = (cell.vertices[removed[x]].dual, cell.vertices[removed[y]].dual);
                    if tx.iter().filter(|p| ty.contains(p)).count() >= 2 {
                        seen[y] = true;
                        stack.push(y);
                    }
                }
            }
        }
        if seen.iter().any(|s| !s) {
            cs.label("disconnected-removed-set");
            return Ok(());
        }
    }
    let compare = |t: &ConvexCell<WithoutFaces>, what: &str, cs: &mut CaseStats| -> Result<(), String> {
        let got = canon(t);
        if got.keys().ne(want.keys()) {
            let miss: Vec<_> = want.keys().filter(|k| !got.contains_key(*k)).take(4).collect();
            let extra: Vec<_> = got.keys().filter(|k| !want.contains_key(*k)).take(4).collect();
            return Err(format!("cell {i}, {what}: the clip yields a different set of vertices (as cyclic plane triples): missing {:?}, unexpected {:?} ({} vs {} vertices, {r} removed)", miss, extra, got.len(), want.len()));
        }
        closed(t).map_err(|e| format!("cell {i}, {what}: {e}"))?;
        let v = volume(t);
        let tolv = vol_tol;
        if (v - want_vol).abs() > tolv {
            return Err(format!("cell {i}, {what}: volume {:e} differs from {:e} of the builder's storage order", v, want_vol));
        }
        if got != want {
            cs.count("orders_with_different_vertex_bits", 1);
        }
        cs.count("permuted_clips", 1);
        Ok(())
    };
    // ---- all permutations of the removed subset (exhaustive up to 7), kept ones shuffled
    // (the coverage-guided target sets MVV_LIGHT: fewer orders per case, more cases per second)
    let light = std::env::var_os("MVV_LIGHT").is_some();
    let perms: Vec<Vec<usize>> = if r <= if light { 4 } else { 7 } {
        cs.count("cells_exhaustive_removed_orders", 1);
        permutations(r)
    } else {
        (0..if light { 60 } else { 2000 })
            .map(|_| {
                let mut p: Vec<usize> = (0..r).collect();
                rng.shuffle(&mut p);
                p
            })
            .collect()
    };
    for p in &perms {
        let mut t = cell.clone();
        let mut k2 = kept.clone();
        rng.shuffle(&mut k2);
        let order: Vec<usize> = k2.iter().copied().chain(p.iter().map(|&x| removed[x])).collect();
        t.vertices = order.iter().map(|&k| cell.vertices[k].clone()).collect();
        rotate_all(&mut t, &mut rng);
        hooks::cell_clip(&mut t, plane.clone(), &generators, &grid);
        compare(&t, &format!("removed vertices stored in order {:?} (indices into {:?})", p, removed), cs)?;
    }
    // ---- all permutations of the whole array when it is small, sampled interleavings otherwise
    let nv = cell.vertices.len();
    let whole: Vec<Vec<usize>> = if nv <= 7 && !light {
        permutations(nv)
    } else {
        (0..if light { 20 } else { 300 })
            .map(|_| {
                let mut p: Vec<usize> = (0..nv).collect();
                rng.shuffle(&mut p);
                p
            })
            .collect()
    };
    for p in &whole {
        let mut t = cell.clone();
        t.vertices = p.iter().map(|&k| cell.vertices[k].clone()).collect();
        rotate_all(&mut t, &mut rng);
        hooks::cell_clip(&mut t, plane.clone(), &generators, &grid);
        compare(&t, &format!("vertex array stored in order {:?}", p), cs)?;
    }
    if r >= 3 {
        cs.nt();
    }
    Ok(())
}

pub fn def() -> PropDef {
    PropDef {
        id: "C18",
        rule: "histories: for a generated input (uniform, clustered, exact and perturbed lattices, wall points, co-spherical, coplanar, dyadic, shared-coordinate; all dimensionalities, periodic or not, n <= 60) and a generated generator index: cell_init + the first K in 0..12 candidates of the production neighbour iterator clipped through ConvexCell::clip_by_plane (reachable cell), replayed a second time with the vertex array shuffled and every plane triple rotated before each clip; then one more plane (the next candidate, or in 60% of the cases the bisector with an extra site at 1e-3..1 box widths from the generator, which removes many vertices). The final clip is executed for ALL r! storage orders of the r removed vertices when r <= 7 (2000 sampled orders above), kept vertices shuffled, every triple rotated at random; plus all permutations of the whole vertex array when it has <= 7 entries (300 sampled otherwise). oracle: identical set of vertices as rotation-normalised cyclic plane triples, volume equal up to rounding (eps_pos x conditioning x surface bound + 1e-11 relative), no panic, closed surface (each directed plane pair once, its opposite once, three distinct planes per vertex). non-trivial: r >= 3 (for 1-2 removed vertices the greedy search has no choice); distinct by case hash; evidence carries the distribution of r and the number of permuted clips. 2 % of the cases are ring inputs (family R): a generator at the centre of a ring of 12..130 coplanar neighbours (exact or radially jittered by up to 5 %) that have all clipped the cell, and the bisector with a generator straight above, which removes all top vertices of the prism in one clip (removed sets up to 130 vertices, label removed=>64).",
        strategy,
        check,
        cases: |t| t.pick(8000, 200_000),
        profiles: &["release"],
        required: &["removed=3", "removed=5", "removed=7", "removed=>7", "removed=>64", "plane:extra-site", "plane:next-candidate", "dim1", "dim2", "dim3", "periodic"],
        fixed: None,
        assumptions: &["the removed set is taken from the clip in the builder's own storage order; disconnected removed sets (never observed) are outside the property's quantifier and only counted", "random orders above 7 removed vertices come from a xorshift generator seeded by a generated value (pure function of the case)"],
    }
}
