//! C17 — neighbour candidates are enumerated completely and in order of distance.
//!
//! Observed: the hook `nn_sequence`, i.e. exactly the iterator `ConvexCell::build` consumes
//! (`nn_iter` = rstar's best-first search, `wrapping_nn_iter` = the crate's own best-first search
//! over the 3^d shifted copies of the r-tree), drained completely.
//! Oracle (model = sort): first item is the query generator without shift; distances recomputed
//! by the harness are non-decreasing up to the rounding of the heap keys; the multiset of
//! (generator, lattice shift) is exactly {all generators} x {-1,0,1}^d (zero on unused axes), each
//! once; the shift is `None` iff it is zero and its components are bitwise 0 or +-width.
use crate::case::Case;
use crate::gen::{self, Fam, GenOpts};
use crate::runner::{CaseStats, PropDef, Tier};
use crate::tol;
use glam::DVec3;
use meshless_voronoi::verif_hooks as hooks;
use proptest::prelude::*;
use proptest::strategy::BoxedStrategy;

const FAMS: &[(u32, Fam)] = &[(4, Fam::U), (3, Fam::K), (2, Fam::L0), (2, Fam::L1), (1, Fam::Lp), (1, Fam::Lb), (1, Fam::B), (1, Fam::D), (1, Fam::E), (1, Fam::N), (1, Fam::S), (1, Fam::P)];

fn strategy(tier: Tier) -> BoxedStrategy<Case> {
    let base = gen::case_strategy(GenOpts { max_n: tier.pick(2500, 10_000), big_n_weight: 6, fams: FAMS.to_vec(), max_offset_log2: 30, ..GenOpts::default() });
    (base, proptest::collection::vec(0.0f64..1.0, 3))
        .prop_map(|(mut c, q)| {
            c.aux_f = q;
            c
        })
        .boxed()
}

/// Query indices of a case: the ones selected by aux_f plus the extremes (first, last, the
/// generator closest to the seam / wall along x).
fn queries(c: &Case) -> Vec<usize> {
    let n = c.n();
    let mut q: Vec<usize> = c.aux_f.iter().map(|f| ((f.max(0.).min(0.999_999) * n as f64) as usize).min(n - 1)).collect();
    q.push(0);
    q.push(n - 1);
    let mut best = (f64::INFINITY, 0usize);
    for (i, g) in c.gens.iter().enumerate() {
        let t = (g[0] - c.anchor[0]).min(c.anchor[0] + c.width[0] - g[0]);
        if t < best.0 {
            best = (t, i);
        }
    }
    q.push(best.1);
    q.sort();
    q.dedup();
    q
}

pub fn check_query(c: &Case, q: usize, cs: &mut CaseStats) -> Result<(), String> {
    let n = c.n();
    let d = c.d();
    let w = c.eff_width();
    let gens = c.eff_gens();
    let images: usize = if c.periodic { 3usize.pow(d as u32) } else { 1 };
    let expected = n * images;
    let seq = hooks::nn_sequence(&c.gens_v(), q, c.dimensionality(), c.periodic, DVec3::from_array(w), expected + 8);
    if seq.len() != expected {
        return Err(format!("query {q}: the candidate iterator yielded {} items, expected exactly n x images = {n} x {images} = {expected}", seq.len()));
    }
    // first item: the generator itself, without shift
    match seq[0] {
        (j, None) if j == q => {}
        (j, s) => return Err(format!("query {q}: the first candidate is ({j}, {:?}), not the generator itself without shift", s)),
    }
    // rounding of the heap keys: positions are rounded to u*L before they are subtracted
    let e = 8. * tol::U * c.scale_l() * 1.7320508;
    let gq = gens[q];
    let mut seen = vec![0u8; expected];
    let mut prev_d2 = 0f64;
    let mut prev_d = 0f64;
    let mut ties = 0u64;
    for (pos, (j, s)) in seq.iter().enumerate() {
        if *j >= n {
            return Err(format!("query {q}: candidate {pos} has generator index {j} >= n = {n}"));
        }
        let mut k = [0i32; 3];
        if let Some(s) = s {
            if !c.periodic {
                return Err(format!("query {q}: candidate {pos} = ({j}, {:?}) carries a shift although the box is not periodic", s));
            }
            let sa = s.to_array();
            let mut all_zero = true;
            for a in 0..3 {
                if sa[a] == 0. {
                    k[a] = 0;
                } else if a < d && sa[a] == w[a] {
                    k[a] = 1;
                    all_zero = false;
                } else if a < d && sa[a] == -w[a] {
                    k[a] = -1;
                    all_zero = false;
                } else {
                    return Err(format!("query {q}: candidate {pos} = ({j}, {:?}): shift component {a} is not bitwise 0 or +-width ({})", s, w[a]));
                }
            }
            if all_zero {
                return Err(format!("query {q}: candidate {pos} = ({j}, Some(zero)): a zero shift must be reported as absent"));
            }
        }
        // slot in the expected multiset
        let mut slot = 0usize;
        if c.periodic {
            for a in 0..d {
                slot = slot * 3 + (k[a] + 1) as usize;
            }
        }
        let id = j * images + slot;
        seen[id] += 1;
        if seen[id] > 1 {
            return Err(format!("query {q}: candidate ({j}, shift {:?}) is visited twice (second time at position {pos})", k));
        }
        // distance as the harness computes it
        let mut d2 = 0.;
        for a in 0..d {
            let x = gens[*j][a] + k[a] as f64 * w[a] - gq[a];
            d2 += x * x;
        }
        let dd = d2.sqrt();
        let slack = 2. * (2. * prev_d.max(dd) * e + e * e);
        if d2 + slack < prev_d2 {
            return Err(format!(
                "query {q}: candidates are not visited in order of distance: position {} has distance {:e}, position {pos} = ({j}, {:?}) has distance {:e} (allowed rounding {:e} on the squares)",
                pos - 1,
                prev_d,
                k,
                dd,
                slack
            ));
        }
        if d2 == prev_d2 && pos > 0 {
            ties += 1;
        }
        cs.max("order_violation_over_slack", if prev_d2 > d2 { (prev_d2 - d2) / slack.max(f64::MIN_POSITIVE) } else { 0. });
        prev_d2 = prev_d2.max(d2);
        prev_d = prev_d2.sqrt();
    }
    // nothing missing (follows from the count and no duplicates, kept as an explicit statement)
    if let Some(id) = seen.iter().position(|&x| x == 0) {
        return Err(format!("query {q}: generator {} image slot {} is never visited", id / images, id % images));
    }
    cs.count("queries", 1);
    cs.count("candidates_checked", expected as u64);
    cs.count("exact_distance_ties", ties);
    if ties > 0 {
        cs.label("distance-ties");
    }
    Ok(())
}

pub fn check(c: &Case, cs: &mut CaseStats) -> Result<(), String> {
    gen::classify(c, cs);
    if !gen::is_valid(c) {
        return Err("INFRA: generator produced an invalid case".into());
    }
    for q in queries(c) {
        check_query(c, q, cs)?;
    }
    if c.periodic && c.n() >= 50 {
        cs.nt();
        cs.label("periodic-deep-tree");
    }
    if !c.periodic && c.n() >= 50 {
        cs.label("reflective-deep-tree");
    }
    Ok(())
}

pub fn def() -> PropDef {
    PropDef {
        id: "C17",
        rule: "cases: point sets of 1 .. 2500 (quick) / 10^4 (thorough) generators from the families uniform, clustered, exact lattices (many equidistant candidates), boundary, dyadic, shared-coordinate, co-spherical, collinear/coplanar, n = 1/2; all dimensionalities, periodic or not, anisotropic boxes (aspect to 2^14), offsets to 2^30; per case 3 random query generators plus the first, the last and the one closest to the wall/seam along x. The hook nn_sequence (the iterator ConvexCell::build consumes) is drained completely. oracle (model = sort): exactly n x 3^d (periodic) / n (reflective) items; first = (query, None); harness-recomputed distances non-decreasing up to the rounding of the heap keys (8 u L on positions); every (generator, lattice shift in {-1,0,1}^d, zero on unused axes) exactly once; shift components bitwise 0 or +-width and None iff zero. non-trivial: periodic (the crate's own search) and n >= 50 (r-tree of depth >= 2, so the envelope bound decides the order); distinct by case hash; sub-counters: exact distance ties, candidates checked.",
        strategy,
        check,
        cases: |t| t.pick(4000, 40_000),
        profiles: &["release"],
        required: &["periodic-deep-tree", "reflective-deep-tree", "distance-ties", "dim1", "dim2", "dim3"],
        fixed: None,
        assumptions: &["distances are recomputed by the harness from the projected generator positions; order is demanded only up to 8 u L rounding of the positions entering the heap keys"],
    }
}
