//! Bit-exact "everything" dump of one case in the current process, and a line-based server mode
//! so that the same dump can be obtained from differently built copies of this binary (the
//! sequential build for C09, the other big-integer backends for C11).
//!
//! Protocol (one JSON document per line): request {"case": <case>, "tuples": bool} ->
//! response {"sections": {name: [len, h1, h2]}, "exact": [calls, zeros], "signs": [..]} or
//! {"panic": "<message>"}.
use crate::case::Case;
use crate::obs;
use glam::DVec3;
use meshless_voronoi::integrals::{AreaCentroidIntegral, CellIntegralWithData, FaceIntegralWithData, FaceIntegrator, VolumeCentroidIntegral};
use meshless_voronoi::verif_hooks as hooks;
use meshless_voronoi::{ConvexCell, ConvexCellMarker, Voronoi, VoronoiIntegrator};
use serde_json::{json, Value};
use std::cell::RefCell;
use std::collections::BTreeMap;
use std::io::{BufRead, BufReader, Write};

pub type Sections = BTreeMap<String, Vec<u64>>;

/// A with-data integral of the harness (cell): remembers which datum it was handed.
#[derive(Clone, Default)]
pub struct CellProbe {
    pub idx: usize,
    pub data: u64,
    pub volume: f64,
}
impl CellIntegralWithData for CellProbe {
    type Data = u64;
    fn init_with_data<M: ConvexCellMarker>(cell: &ConvexCell<M>, data: u64) -> Self {
        CellProbe { idx: cell.idx, data, volume: 0. }
    }
    fn collect(&mut self, v0: DVec3, v1: DVec3, v2: DVec3, gen: DVec3) {
        self.volume += meshless_voronoi::geometry::signed_volume_tet(v0, v1, v2, gen);
    }
    fn finalize(self) -> Self {
        self
    }
}
#[derive(Clone, Default)]
pub struct FaceProbe {
    pub idx: usize,
    pub plane: usize,
    pub data: u64,
    pub area: f64,
}
impl FaceIntegralWithData for FaceProbe {
    type Data = u64;
    fn init_with_data<M: ConvexCellMarker>(cell: &ConvexCell<M>, clipping_plane_idx: usize, data: u64) -> Self {
        FaceProbe { idx: cell.idx, plane: clipping_plane_idx, data, area: 0. }
    }
    fn collect(&mut self, v0: DVec3, v1: DVec3, v2: DVec3, gen: DVec3) {
        self.area += meshless_voronoi::geometry::signed_area_tri(v0, v1, v2, gen);
    }
    fn finalize(self) -> Self {
        self
    }
}

fn v3(d: &mut Vec<u64>, v: DVec3) {
    d.push(v.x.to_bits());
    d.push(v.y.to_bits());
    d.push(v.z.to_bits());
}
fn face_head<I: FaceIntegralWithData>(d: &mut Vec<u64>, f: &FaceIntegrator<I>) {
    d.push(f.left() as u64);
    d.push(f.right().map_or(u64::MAX, |r| r as u64));
    match f.shift() {
        None => d.push(0),
        Some(s) => {
            d.push(1);
            v3(d, s);
        }
    }
}
fn area_faces(list: &[FaceIntegrator<AreaCentroidIntegral>]) -> Vec<u64> {
    let mut d = vec![list.len() as u64];
    for f in list {
        face_head(&mut d, f);
        d.push(f.integral().area.to_bits());
        v3(&mut d, f.integral().centroid);
    }
    d
}
fn probe_faces(list: &[FaceIntegrator<FaceProbe>]) -> Vec<u64> {
    let mut d = vec![list.len() as u64];
    for f in list {
        face_head(&mut d, f);
        let p = f.integral();
        d.extend([p.idx as u64, p.plane as u64, p.data, p.area.to_bits()]);
    }
    d
}

fn integrator_sections<M: ConvexCellMarker + 'static>(vi: &VoronoiIntegrator<M>, n: usize, prefix: &str, out: &mut Sections) {
    let cells = vi.compute_cell_integrals::<VolumeCentroidIntegral>();
    let mut d = vec![cells.len() as u64];
    for c in &cells {
        d.push(c.volume.to_bits());
        v3(&mut d, c.centroid);
    }
    out.insert(format!("{prefix}cell_integrals"), d);
    out.insert(format!("{prefix}face_integrals"), area_faces(&vi.compute_face_integrals::<AreaCentroidIntegral>()));
    out.insert(format!("{prefix}face_integrals_sym"), area_faces(&vi.compute_face_integrals_sym::<AreaCentroidIntegral>()));
    let data: Vec<u64> = (0..n as u64).map(|k| 0xD00D_0000 + 31 * k).collect();
    let cd = vi.compute_cell_integrals_with_data::<u64, CellProbe>(&data);
    let mut d = vec![cd.len() as u64];
    for c in &cd {
        d.extend([c.idx as u64, c.data, c.volume.to_bits()]);
    }
    out.insert(format!("{prefix}cell_integrals_with_data"), d);
    out.insert(format!("{prefix}face_integrals_with_data"), probe_faces(&vi.compute_face_integrals_with_data::<u64, FaceProbe>(&data)));
    out.insert(format!("{prefix}face_integrals_sym_with_data"), probe_faces(&vi.compute_face_integrals_sym_with_data::<u64, FaceProbe>(&data)));
}

/// Every observable of the property C09 / C11 for one case, bit exact, by section.
pub fn sections(c: &Case) -> Sections {
    let mut out = Sections::new();
    let v = obs::build(c);
    out.insert("voronoi".into(), obs::dump(&obs::observe(&v)));
    let vi = obs::integrator(c, c.mask.as_deref());
    out.insert("voronoi_from_integrator".into(), obs::dump(&obs::observe(&Voronoi::from(&vi))));
    integrator_sections(&vi, c.n(), "", &mut out);
    // vertices and planes of every constructed cell
    let mut d = vec![];
    for cell in vi.cells_iter() {
        d.push(cell.idx as u64);
        d.push(cell.vertices.len() as u64);
        for vx in &cell.vertices {
            v3(&mut d, vx.loc);
            d.extend(vx.dual.iter().map(|&p| p as u64));
        }
        d.push(cell.clipping_planes.len() as u64);
        for p in &cell.clipping_planes {
            d.push(p.right_idx.map_or(u64::MAX, |r| r as u64));
            v3(&mut d, p.plane.n);
            v3(&mut d, p.plane.p);
        }
    }
    out.insert("convex_cells".into(), d);
    if c.dim == 3 {
        let vf = vi.with_faces();
        integrator_sections(&vf, c.n(), "with_faces.", &mut out);
    }
    out
}

pub fn digest(d: &[u64]) -> [u64; 3] {
    let mut h1: u64 = 0xcbf2_9ce4_8422_2325;
    let mut h2: u64 = 0x9E37_79B9_7F4A_7C15;
    for &x in d {
        for b in x.to_le_bytes() {
            h1 ^= b as u64;
            h1 = h1.wrapping_mul(0x100_0000_01B3);
        }
        h2 ^= x.wrapping_add(0x9E37_79B9_7F4A_7C15).wrapping_add(h2 << 6).wrapping_add(h2 >> 2);
        h2 = h2.rotate_left(23).wrapping_mul(0xBF58_476D_1CE4_E5B9);
    }
    [d.len() as u64, h1, h2]
}

pub fn digests(s: &Sections) -> BTreeMap<String, [u64; 3]> {
    s.iter().map(|(k, v)| (k.clone(), digest(v))).collect()
}

/// First section whose digest differs (for messages).
pub fn first_difference(a: &BTreeMap<String, [u64; 3]>, b: &BTreeMap<String, [u64; 3]>) -> Option<String> {
    for (k, va) in a {
        match b.get(k) {
            Some(vb) if va == vb => {}
            Some(vb) => return Some(format!("section '{k}' differs (lengths {} / {})", va[0], vb[0])),
            None => return Some(format!("section '{k}' is missing on one side")),
        }
    }
    b.keys().find(|k| !a.contains_key(*k)).map(|k| format!("section '{k}' is missing on one side"))
}

/// Signs of the exact predicate on the integer tuples in `aux_i` (groups of 15).
pub fn predicate_signs(c: &Case) -> Vec<i64> {
    c.aux_i
        .chunks_exact(15)
        .map(|t| {
            let p = |k: usize| [t[3 * k], t[3 * k + 1], t[3 * k + 2]];
            hooks::insphere_exact(&p(0), &p(1), &p(2), &p(3), &p(4)) as i64
        })
        .collect()
}

/// Answer one request in this process.
pub fn answer(req: &Value) -> Value {
    let case = match Case::from_json(&req["case"]) {
        Ok(c) => c,
        Err(e) => return json!({ "error": e }),
    };
    let r = std::panic::catch_unwind(std::panic::AssertUnwindSafe(|| {
        hooks::reset_exact_calls();
        let s = if case.gens.is_empty() { BTreeMap::new() } else { digests(&sections(&case)) };
        let (calls, zeros) = hooks::exact_calls();
        let signs = predicate_signs(&case);
        json!({ "sections": s, "exact": [calls, zeros], "signs": signs })
    }));
    match r {
        Ok(v) => v,
        Err(p) => {
            let msg = p.downcast_ref::<&str>().map(|s| s.to_string()).or_else(|| p.downcast_ref::<String>().cloned()).unwrap_or("<panic>".into());
            json!({ "panic": msg })
        }
    }
}

pub fn serve_main() {
    let stdin = std::io::stdin();
    let stdout = std::io::stdout();
    for line in stdin.lock().lines() {
        let line = match line {
            Ok(l) => l,
            Err(_) => break,
        };
        if line.trim().is_empty() {
            continue;
        }
        let resp = match serde_json::from_str::<Value>(&line) {
            Ok(req) => answer(&req),
            Err(e) => json!({ "error": format!("bad request: {e}") }),
        };
        let mut o = stdout.lock();
        let _ = writeln!(o, "{}", serde_json::to_string(&resp).unwrap());
        let _ = o.flush();
    }
}

struct Child {
    proc: std::process::Child,
    stdin: std::process::ChildStdin,
    stdout: BufReader<std::process::ChildStdout>,
}

thread_local! {
    static CHILDREN: RefCell<BTreeMap<String, Child>> = RefCell::new(BTreeMap::new());
}

/// Ask the differently built copy `variant` (binary path in the environment variable
/// MVV_BIN_<VARIANT>) for its answer. Children are started on first use and live as long as the
/// calling thread. Errors are infrastructure trouble ("INFRA: ...").
pub fn ask(variant: &str, threads: usize, req: &Value) -> Result<Value, String> {
    CHILDREN.with(|ch| {
        let mut ch = ch.borrow_mut();
        let key = format!("{variant}/{threads}");
        if !ch.contains_key(&key) {
            let var = format!("MVV_BIN_{}", variant.to_uppercase());
            let bin = std::env::var(&var).map_err(|_| format!("INFRA: {var} is not set (the check script exports it)"))?;
            let mut proc = std::process::Command::new(&bin)
                .args(["serve", "x"])
                .env("RAYON_NUM_THREADS", threads.to_string())
                .stdin(std::process::Stdio::piped())
                .stdout(std::process::Stdio::piped())
                .stderr(std::process::Stdio::null())
                .spawn()
                .map_err(|e| format!("INFRA: cannot start {bin}: {e}"))?;
            let stdin = proc.stdin.take().ok_or("INFRA: no stdin")?;
            let stdout = BufReader::new(proc.stdout.take().ok_or("INFRA: no stdout")?);
            ch.insert(key.clone(), Child { proc, stdin, stdout });
        }
        let c = ch.get_mut(&key).unwrap();
        let line = serde_json::to_string(req).unwrap();
        let io = (|| -> std::io::Result<String> {
            writeln!(c.stdin, "{line}")?;
            c.stdin.flush()?;
            let mut resp = String::new();
            c.stdout.read_line(&mut resp)?;
            Ok(resp)
        })();
        match io {
            Ok(resp) if !resp.trim().is_empty() => serde_json::from_str(&resp).map_err(|e| format!("INFRA: bad response from {variant}: {e}")),
            _ => {
                // the child died (e.g. an abort): forget it so that the next case starts a new one
                if let Some(mut dead) = ch.remove(&key) {
                    let _ = dead.proc.kill();
                    let _ = dead.proc.wait();
                }
                Ok(json!({ "panic": "the process died (abort / stack overflow) while handling the case" }))
            }
        }
    })
}

pub fn parse_digests(v: &Value) -> BTreeMap<String, [u64; 3]> {
    let mut out = BTreeMap::new();
    if let Some(o) = v.as_object() {
        for (k, a) in o {
            if let Some(a) = a.as_array() {
                if a.len() == 3 {
                    out.insert(k.clone(), [a[0].as_u64().unwrap_or(0), a[1].as_u64().unwrap_or(0), a[2].as_u64().unwrap_or(0)]);
                }
            }
        }
    }
    out
}
