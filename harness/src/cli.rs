use crate::runner::{self, PropDef, Tier};

fn arg(args: &[String], name: &str) -> Option<String> {
    args.iter().position(|a| a == name).and_then(|i| args.get(i + 1).cloned())
}

/// Command line of the harness binary (`mvv`) and of satellite binaries that bring their own
/// property definitions (C14 lives in its own crate so that a compile failure of the downstream
/// crate cannot break the other checks).
pub fn main_with(find: &dyn Fn(&str) -> Option<PropDef>) {
    let args: Vec<String> = std::env::args().collect();
    if args.len() < 3 {
        eprintln!("usage: mvv run|shard|replay|selftest <ID> [--tier quick|thorough] [--seed N] [--k K --of N] [FILE]");
        std::process::exit(2);
    }
    runner::install_panic_hook();
    let cmd = args[1].as_str();
    let id = args[2].as_str();
    if cmd == "decode" {
        // fuzz artifact -> case file (same decoder as the fuzz targets): mvv decode <target> <artifact> <out.json>
        let data = std::fs::read(args.get(3).cloned().unwrap_or_default()).unwrap_or_default();
        let case = crate::fuzzdec::decode_target(id, &data);
        match case {
            Some(c) => {
                let out = args.get(4).cloned().unwrap_or("/dev/stdout".into());
                std::fs::write(&out, serde_json::to_string_pretty(&c.to_json()).unwrap()).unwrap();
                std::process::exit(0);
            }
            None => {
                eprintln!("artifact does not decode to a case");
                std::process::exit(3);
            }
        }
    }
    if cmd == "serve" {
        // line based server for differential checks across builds (C09, C11)
        crate::serve::serve_main();
        return;
    }
    if cmd == "selftest" {
        std::process::exit(crate::refmodel::selftest());
    }
    let def = match find(id) {
        Some(d) => d,
        None => {
            eprintln!("unknown property {id}");
            std::process::exit(2);
        }
    };
    let tier = Tier::parse(&arg(&args, "--tier").or_else(|| std::env::var("VERIF_TIER").ok()).unwrap_or("quick".into()));
    // some checks size their per-case work by the tier
    std::env::set_var("MVV_TIER", tier.name());
    let seed: u64 = arg(&args, "--seed")
        .or_else(|| std::env::var("VERIF_SEED").ok())
        .and_then(|s| s.trim().parse::<i128>().ok())
        .map(|v| v as u64)
        .unwrap_or(0);
    match cmd {
        "run" => std::process::exit(runner::run_parent(&def, tier, seed)),
        "shard" => {
            let k: u64 = arg(&args, "--k").and_then(|s| s.parse().ok()).unwrap_or(0);
            let of: u64 = arg(&args, "--of").and_then(|s| s.parse().ok()).unwrap_or(1);
            let (stats, failure) = runner::run_shard(&def, tier, seed, k, of);
            let v = serde_json::json!({
                "stats": stats.to_json(),
                "failure": failure.as_ref().map(|f| runner::failure_json(def.id, f)),
            });
            println!("SHARD-RESULT {}", serde_json::to_string(&v).unwrap());
        }
        "survey" => {
            // tally failures by message prefix and family without stopping or shrinking
            let n: usize = arg(&args, "--n").and_then(|s| s.parse().ok()).unwrap_or(2000);
            let strat = (def.strategy)(tier);
            let cases = runner::sample_strategy(&strat, seed, n);
            let mut tally: std::collections::BTreeMap<String, (u64, Option<String>)> = Default::default();
            let mut fams: std::collections::BTreeMap<String, (u64, u64)> = Default::default();
            let dir = arg(&args, "--save");
            for c in &cases {
                let (r, _cs) = runner::eval(def.check, c);
                let e = fams.entry(c.family.clone()).or_insert((0, 0));
                e.0 += 1;
                if let Err(m) = r {
                    e.1 += 1;
                    let key: String = format!("{} | {}", c.family, m.chars().take(70).collect::<String>());
                    let t = tally.entry(key).or_insert((0, None));
                    t.0 += 1;
                    if t.1.is_none() {
                        t.1 = Some(m.clone());
                        if let Some(d) = &dir {
                            let _ = std::fs::create_dir_all(d);
                            let _ = std::fs::write(format!("{d}/{:016x}.json", c.hash64()), serde_json::to_string_pretty(&serde_json::json!({"message": m, "case": c.to_json()})).unwrap());
                        }
                    }
                }
            }
            println!("families (cases, failures): {:?}", fams);
            for (k, (n, m)) in tally {
                println!("{n:6}  {k}\n        first: {}", m.unwrap_or_default());
            }
        }
        "minimize" => {
            // greedy minimisation directly on the case: drop generators, then clear low mantissa
            // bits of coordinates, as long as the failure message keeps its first 40 characters
            let path = args.get(3).cloned().unwrap_or_default();
            let mut c = crate::case::Case::load(&path).expect("load");
            let (r, _) = runner::eval(def.check, &c);
            let msg = match r {
                Err(m) => m,
                Ok(()) => {
                    println!("case does not fail");
                    std::process::exit(0);
                }
            };
            let key: String = msg.chars().take(40).collect();
            let fails = |c: &crate::case::Case| matches!(runner::eval(def.check, c).0, Err(m) if m.starts_with(&key));
            let mut progress = true;
            while progress {
                progress = false;
                let mut i = 0;
                while i < c.gens.len() && c.gens.len() > 1 {
                    let mut t = c.clone();
                    t.gens.remove(i);
                    if let Some(m) = t.mask.as_mut() {
                        m.remove(i);
                    }
                    if fails(&t) {
                        c = t;
                        progress = true;
                    } else {
                        i += 1;
                    }
                }
            }
            for bits in [40u32, 30, 20, 10] {
                for i in 0..c.gens.len() {
                    for k in 0..3 {
                        let mut t = c.clone();
                        let b = t.gens[i][k].to_bits() & !((1u64 << bits) - 1);
                        t.gens[i][k] = f64::from_bits(b);
                        if t.gens[i][k] != c.gens[i][k] && crate::gen::is_valid(&t) && fails(&t) {
                            c = t;
                        }
                    }
                }
            }
            let out = format!("{path}.min.json");
            std::fs::write(&out, serde_json::to_string_pretty(&serde_json::json!({"message": msg, "case": c.to_json()})).unwrap()).unwrap();
            println!("minimised to n = {} -> {out}", c.n());
            for g in &c.gens {
                println!("  {:?}", g);
            }
        }
        "replay" => {
            let path = args.get(3).cloned().unwrap_or_default();
            std::process::exit(runner::replay(&def, &path));
        }
        _ => {
            eprintln!("unknown command {cmd}");
            std::process::exit(2);
        }
    }
}
