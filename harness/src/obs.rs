//! Neutral observation structs for the library's outputs and bit-exact canonical dumps.
use crate::case::Case;
use glam::DVec3;
use meshless_voronoi::integrals::{AreaCentroidIntegral, VolumeCentroidIntegral};
use meshless_voronoi::{ConvexCell, ConvexCellMarker, Voronoi, VoronoiIntegrator, WithoutFaces};

#[derive(Clone, Debug, PartialEq)]
pub struct ObsFace {
    pub left: usize,
    pub right: Option<usize>,
    pub shift: Option<[f64; 3]>,
    pub area: f64,
    pub centroid: [f64; 3],
    pub normal: [f64; 3],
}

#[derive(Clone, Debug, PartialEq)]
pub struct ObsCell {
    pub loc: [f64; 3],
    pub centroid: [f64; 3],
    pub volume: f64,
    pub safety_radius: f64,
    pub offset: usize,
    pub count: usize,
    pub face_indices: Vec<usize>,
    pub neighbour_ids: Vec<usize>,
}

#[derive(Clone, Debug, PartialEq)]
pub struct ObsVoronoi {
    pub cells: Vec<ObsCell>,
    pub faces: Vec<ObsFace>,
    pub conn: Vec<usize>,
    pub anchor: [f64; 3],
    pub width: [f64; 3],
    pub dim: usize,
    pub periodic: bool,
}

pub fn build_full(c: &Case) -> Voronoi {
    Voronoi::build(&c.gens_v(), c.anchor_v(), c.width_v(), c.dimensionality(), c.periodic)
}
pub fn build_partial(c: &Case, mask: &[bool]) -> Voronoi {
    Voronoi::build_partial(&c.gens_v(), mask, c.anchor_v(), c.width_v(), c.dimensionality(), c.periodic)
}
/// Build with the case's own mask (if any).
pub fn build(c: &Case) -> Voronoi {
    match &c.mask {
        Some(m) => build_partial(c, m),
        None => build_full(c),
    }
}
pub fn integrator(c: &Case, mask: Option<&[bool]>) -> VoronoiIntegrator<WithoutFaces> {
    VoronoiIntegrator::build(&c.gens_v(), mask, c.anchor_v(), c.width_v(), c.dimensionality(), c.periodic)
}

pub fn observe(v: &Voronoi) -> ObsVoronoi {
    let faces = v
        .faces()
        .iter()
        .map(|f| ObsFace {
            left: f.left(),
            right: f.right(),
            shift: f.shift().map(|s| s.to_array()),
            area: f.area(),
            centroid: f.centroid().to_array(),
            normal: f.normal().to_array(),
        })
        .collect();
    let cells = v
        .cells()
        .iter()
        .map(|c| ObsCell {
            loc: c.loc().to_array(),
            centroid: c.centroid().to_array(),
            volume: c.volume(),
            safety_radius: c.safety_radius(),
            offset: c.face_connections_offset(),
            count: c.face_count(),
            face_indices: c.face_indices(v).to_vec(),
            neighbour_ids: c.neighbour_ids(v).collect(),
        })
        .collect();
    ObsVoronoi {
        cells,
        faces,
        conn: v.cell_face_connections().to_vec(),
        anchor: v.anchor().to_array(),
        width: v.width().to_array(),
        dim: v.dimensionality(),
        periodic: v.periodic(),
    }
}

/// One face as seen from one cell (non-symmetric face integrals).
#[derive(Clone, Debug)]
pub struct CellFace {
    pub right: Option<usize>,
    pub shift: Option<[f64; 3]>,
    pub area: f64,
    pub centroid: [f64; 3],
}

/// Per constructed cell: (idx, volume, centroid, faces as seen from that cell).
#[derive(Clone, Debug)]
pub struct CellView {
    pub idx: usize,
    pub loc: [f64; 3],
    pub volume: f64,
    pub centroid: [f64; 3],
    pub faces: Vec<CellFace>,
    pub vertices: Vec<[f64; 3]>,
    /// conditioning (1/|det| of the unit normals, >= 1) per vertex
    pub kappa: Vec<f64>,
    pub safety_radius: f64,
}

pub fn vertex_kappa<M: ConvexCellMarker>(cell: &ConvexCell<M>) -> Vec<f64> {
    cell.vertices
        .iter()
        .map(|v| {
            let n0 = cell.clipping_planes[v.dual[0]].normal();
            let n1 = cell.clipping_planes[v.dual[1]].normal();
            let n2 = cell.clipping_planes[v.dual[2]].normal();
            let det = n0.cross(n1).dot(n2).abs();
            if det > 0. {
                (1. / det).max(1.)
            } else {
                f64::INFINITY
            }
        })
        .collect()
}

pub fn cell_views<M: ConvexCellMarker + 'static>(vi: &VoronoiIntegrator<M>, n: usize) -> Vec<CellView> {
    let vols = vi.compute_cell_integrals::<VolumeCentroidIntegral>();
    let faces = vi.compute_face_integrals::<AreaCentroidIntegral>();
    let mut out = vec![];
    let mut vi_it = vols.into_iter();
    for i in 0..n {
        if let Some(cell) = vi.get_cell_at(i) {
            let vc = vi_it.next().expect("one cell integral per constructed cell");
            out.push(CellView {
                idx: cell.idx,
                loc: cell.loc.to_array(),
                volume: vc.volume,
                centroid: vc.centroid.to_array(),
                faces: vec![],
                vertices: cell.vertices.iter().map(|v| v.loc.to_array()).collect(),
                kappa: vertex_kappa(cell),
                safety_radius: meshless_voronoi::verif_hooks::cell_safety_radius(cell),
            });
        }
    }
    // faces come grouped per cell, in cell order; attach by `left`
    let mut pos = std::collections::HashMap::new();
    for (k, cv) in out.iter().enumerate() {
        pos.insert(cv.idx, k);
    }
    for f in faces {
        let k = *pos.get(&f.left()).expect("face integral of an unconstructed cell");
        out[k].faces.push(CellFace {
            right: f.right(),
            shift: f.shift().map(|s| s.to_array()),
            area: f.integral().area,
            centroid: f.integral().centroid.to_array(),
        });
    }
    out
}

/// Bit exact canonical dump of a compact tessellation (C07, C09, C11, C13).
pub fn dump(o: &ObsVoronoi) -> Vec<u64> {
    let mut d = vec![];
    let f3 = |d: &mut Vec<u64>, v: &[f64; 3]| {
        for x in v {
            d.push(x.to_bits());
        }
    };
    d.push(o.cells.len() as u64);
    for c in &o.cells {
        f3(&mut d, &c.loc);
        f3(&mut d, &c.centroid);
        d.push(c.volume.to_bits());
        d.push(c.safety_radius.to_bits());
        d.push(c.offset as u64);
        d.push(c.count as u64);
        // what the cell's accessors return (a cell that believes to be another generator lists the
        // same faces but reports other neighbours)
        d.push(c.face_indices.len() as u64);
        d.extend(c.face_indices.iter().map(|&x| x as u64));
        d.push(c.neighbour_ids.len() as u64);
        d.extend(c.neighbour_ids.iter().map(|&x| x as u64));
    }
    d.push(o.faces.len() as u64);
    for f in &o.faces {
        d.push(f.left as u64);
        d.push(f.right.map_or(u64::MAX, |r| r as u64));
        match &f.shift {
            None => d.push(0),
            Some(s) => {
                d.push(1);
                f3(&mut d, s);
            }
        }
        d.push(f.area.to_bits());
        f3(&mut d, &f.centroid);
        f3(&mut d, &f.normal);
    }
    d.push(o.conn.len() as u64);
    d.extend(o.conn.iter().map(|&x| x as u64));
    d
}

pub fn v3(a: [f64; 3]) -> DVec3 {
    DVec3::from_array(a)
}

/// First index at which two dumps differ (for messages).
pub fn first_diff(a: &[u64], b: &[u64]) -> Option<usize> {
    if a.len() != b.len() {
        return Some(a.len().min(b.len()));
    }
    a.iter().zip(b).position(|(x, y)| x != y)
}

/// A face integral of the harness' own that remembers the clipping plane it belongs to
/// (the library's `AreaCentroidIntegral` does not).
#[derive(Clone, Debug, Default)]
pub struct PlaneFace {
    pub plane_idx: usize,
    pub area: f64,
    pub centroid: DVec3,
    pub tris: usize,
}
impl meshless_voronoi::integrals::FaceIntegral for PlaneFace {
    fn init<M: ConvexCellMarker>(_cell: &ConvexCell<M>, clipping_plane_idx: usize) -> Self {
        PlaneFace { plane_idx: clipping_plane_idx, area: 0., centroid: DVec3::ZERO, tris: 0 }
    }
    fn collect(&mut self, v0: DVec3, v1: DVec3, v2: DVec3, gen: DVec3) {
        let a = meshless_voronoi::geometry::signed_area_tri(v0, v1, v2, gen);
        self.area += a;
        self.centroid += a * (v0 + v1 + v2);
        self.tris += 1;
    }
    fn finalize(mut self) -> Self {
        if self.area > 0. {
            self.centroid /= 3. * self.area;
        } else {
            self.centroid = DVec3::ZERO;
        }
        self
    }
}

/// Integer period shift of a face (shift / width, rounded), zero when absent.
pub fn shift_ints(shift: Option<DVec3>, width: &[f64; 3]) -> [i32; 3] {
    match shift {
        None => [0; 3],
        Some(s) => [(s.x / width[0]).round() as i32, (s.y / width[1]).round() as i32, (s.z / width[2]).round() as i32],
    }
}
