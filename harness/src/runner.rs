//! Engine: sharded proptest runs (one process per shard so that the library's global hook
//! counters and rayon pool are private to a shard), merging of statistics, evidence files,
//! replay files, known findings.
use crate::case::Case;
use proptest::strategy::{BoxedStrategy, Strategy, ValueTree};
use proptest::test_runner::{Config, RngAlgorithm, TestCaseError, TestError, TestRng, TestRunner};
use serde_json::{json, Value};
use std::cell::RefCell;
use std::collections::{BTreeMap, BTreeSet};
use std::panic;
use std::time::{Duration, Instant};

#[derive(Clone, Copy, Debug, PartialEq)]
pub enum Tier {
    Quick,
    Thorough,
}
impl Tier {
    pub fn name(&self) -> &'static str {
        match self {
            Tier::Quick => "quick",
            Tier::Thorough => "thorough",
        }
    }
    pub fn parse(s: &str) -> Tier {
        if s == "thorough" {
            Tier::Thorough
        } else {
            Tier::Quick
        }
    }
    pub fn pick<T>(&self, q: T, t: T) -> T {
        match self {
            Tier::Quick => q,
            Tier::Thorough => t,
        }
    }
}

/// What a single evaluation of a property reports next to pass/fail.
#[derive(Default, Debug)]
pub struct CaseStats {
    pub nontrivial: bool,
    pub labels: BTreeSet<String>,
    pub counters: BTreeMap<String, u64>,
    pub maxima: BTreeMap<String, f64>,
}
impl CaseStats {
    pub fn nt(&mut self) {
        self.nontrivial = true;
    }
    pub fn label<S: Into<String>>(&mut self, s: S) {
        self.labels.insert(s.into());
    }
    pub fn count(&mut self, k: &str, n: u64) {
        *self.counters.entry(k.to_string()).or_insert(0) += n;
    }
    pub fn max(&mut self, k: &str, v: f64) {
        let e = self.maxima.entry(k.to_string()).or_insert(f64::NEG_INFINITY);
        if v > *e {
            *e = v;
        }
    }
}

#[derive(Default, Debug)]
pub struct Stats {
    pub evaluations: u64,
    pub nontrivial: BTreeSet<u64>,
    pub classes: BTreeMap<String, u64>,
    pub counters: BTreeMap<String, u64>,
    pub maxima: BTreeMap<String, f64>,
    pub samples: Vec<Value>,
    pub exhaustive: bool,
}
impl Stats {
    pub fn absorb(&mut self, case_hash: u64, cs: CaseStats, sample: Option<Value>) {
        self.evaluations += 1;
        if cs.nontrivial {
            self.nontrivial.insert(case_hash);
        }
        for l in cs.labels {
            *self.classes.entry(l).or_insert(0) += 1;
        }
        for (k, v) in cs.counters {
            *self.counters.entry(k).or_insert(0) += v;
        }
        for (k, v) in cs.maxima {
            let e = self.maxima.entry(k).or_insert(f64::NEG_INFINITY);
            if v > *e {
                *e = v;
            }
        }
        if let Some(s) = sample {
            if self.samples.len() < 4 {
                self.samples.push(s);
            }
        }
    }
    pub fn merge(&mut self, o: Stats) {
        self.evaluations += o.evaluations;
        self.nontrivial.extend(o.nontrivial);
        for (k, v) in o.classes {
            *self.classes.entry(k).or_insert(0) += v;
        }
        for (k, v) in o.counters {
            *self.counters.entry(k).or_insert(0) += v;
        }
        for (k, v) in o.maxima {
            let e = self.maxima.entry(k).or_insert(f64::NEG_INFINITY);
            if v > *e {
                *e = v;
            }
        }
        for s in o.samples {
            if self.samples.len() < 6 {
                self.samples.push(s);
            }
        }
        self.exhaustive |= o.exhaustive;
    }
    pub fn to_json(&self) -> Value {
        json!({
            "evaluations": self.evaluations,
            "nontrivial": self.nontrivial.iter().map(|h| format!("{:016x}", h)).collect::<Vec<_>>(),
            "classes": self.classes, "counters": self.counters,
            "maxima": self.maxima.iter().map(|(k, v)| (k.clone(), json!(if v.is_finite() { *v } else { -1. }))).collect::<BTreeMap<_, _>>(),
            "samples": self.samples, "exhaustive": self.exhaustive,
        })
    }
    pub fn from_json(v: &Value) -> Stats {
        let mut s = Stats::default();
        s.evaluations = v["evaluations"].as_u64().unwrap_or(0);
        if let Some(a) = v["nontrivial"].as_array() {
            for h in a {
                if let Some(h) = h.as_str().and_then(|h| u64::from_str_radix(h, 16).ok()) {
                    s.nontrivial.insert(h);
                }
            }
        }
        for (name, dst) in [("classes", &mut s.classes), ("counters", &mut s.counters)] {
            if let Some(o) = v[name].as_object() {
                for (k, x) in o {
                    dst.insert(k.clone(), x.as_u64().unwrap_or(0));
                }
            }
        }
        if let Some(o) = v["maxima"].as_object() {
            for (k, x) in o {
                s.maxima.insert(k.clone(), x.as_f64().unwrap_or(0.));
            }
        }
        if let Some(a) = v["samples"].as_array() {
            s.samples = a.clone();
        }
        s.exhaustive = v["exhaustive"].as_bool().unwrap_or(false);
        s
    }
}

#[derive(Debug, Clone)]
pub struct Failure {
    pub message: String,
    pub case: Option<Case>,
}

pub type CheckFn = fn(&Case, &mut CaseStats) -> Result<(), String>;

pub struct PropDef {
    pub id: &'static str,
    /// how cases are generated and what makes one non-trivial (goes into the evidence)
    pub rule: &'static str,
    pub strategy: fn(Tier) -> BoxedStrategy<Case>,
    pub check: CheckFn,
    /// total number of generated cases per profile
    pub cases: fn(Tier) -> u64,
    /// build profiles the cases are executed under
    pub profiles: &'static [&'static str],
    /// class labels that must be hit at least once, otherwise the run is reported as a
    /// generator regression (exit 2): a vacuous run cannot report success
    pub required: &'static [&'static str],
    /// optional deterministic part (exhaustive enumeration, fixed golden cases), run by shard 0
    pub fixed: Option<fn(Tier, &mut Stats) -> Result<(), Failure>>,
    pub assumptions: &'static [&'static str],
}

pub const SHARDS: u64 = 16;

// process-wide (library panics happen on rayon worker threads; shards are separate processes)
static LAST_PANIC: std::sync::Mutex<Option<String>> = std::sync::Mutex::new(None);

pub fn install_panic_hook() {
    panic::set_hook(Box::new(|info| {
        let msg = if let Some(s) = info.payload().downcast_ref::<&str>() {
            s.to_string()
        } else if let Some(s) = info.payload().downcast_ref::<String>() {
            s.clone()
        } else {
            "<non-string panic>".to_string()
        };
        let loc = info
            .location()
            .map(|l| {
                let f = l.file();
                let f = f.rsplit("/src/").next().unwrap_or(f);
                format!("{}:{}", f, l.line())
            })
            .unwrap_or_default();
        if let Ok(mut p) = LAST_PANIC.lock() {
            if p.is_none() {
                *p = Some(format!("panic: {msg} [{loc}]"));
            }
        }
    }));
}

/// Evaluate a property on one case, turning panics (of the library or of the check) into
/// failures. Panics that happen on rayon worker threads are propagated by rayon to the caller,
/// the message is then taken from the caller's payload.
pub fn eval(check: CheckFn, case: &Case) -> (Result<(), String>, CaseStats) {
    let mut cs = CaseStats::default();
    if let Ok(mut p) = LAST_PANIC.lock() {
        *p = None;
    }
    let r = panic::catch_unwind(panic::AssertUnwindSafe(|| check(case, &mut cs)));
    match r {
        Ok(r) => (r, cs),
        Err(payload) => {
            let from_hook = LAST_PANIC.lock().ok().and_then(|mut p| p.take());
            let msg = from_hook.unwrap_or_else(|| {
                if let Some(s) = payload.downcast_ref::<&str>() {
                    format!("panic: {s}")
                } else if let Some(s) = payload.downcast_ref::<String>() {
                    format!("panic: {s}")
                } else {
                    "panic: <unknown>".into()
                }
            });
            if crate::known::is_known_c05_panic(case, &msg) {
                // a listed finding of C05: excluded from the search (counted), so that the
                // exploration continues behind it
                let mut cs = CaseStats::default();
                cs.label("known-c05-panic");
                cs.count("known_c05_panics", 1);
                return (Ok(()), cs);
            }
            (Err(msg), cs)
        }
    }
}

fn mix(seed: u64, prop: &str, shard: u64, profile_independent: u64) -> [u8; 32] {
    let mut out = [0u8; 32];
    let mut x = seed ^ 0x9E37_79B9_7F4A_7C15u64.wrapping_mul(shard + 1) ^ profile_independent;
    for b in prop.bytes() {
        x = x.rotate_left(7) ^ (b as u64).wrapping_mul(0x100_0000_01B3);
    }
    for i in 0..4 {
        x ^= x >> 30;
        x = x.wrapping_mul(0xBF58_476D_1CE4_E5B9);
        x ^= x >> 27;
        x = x.wrapping_mul(0x94D0_49BB_1331_11EB);
        x ^= x >> 31;
        out[i * 8..i * 8 + 8].copy_from_slice(&x.to_le_bytes());
        x = x.wrapping_add(0x9E37_79B9_7F4A_7C15);
    }
    out
}

/// Run one shard in-process; returns the statistics and the (shrunk) failure if any.
pub fn run_shard(def: &PropDef, tier: Tier, seed: u64, shard: u64, of: u64) -> (Stats, Option<Failure>) {
    let mut stats = Stats::default();
    // deterministic part + corpus replays are the business of shard 0
    if shard == 0 {
        let dir = format!("{}/corpus/{}", crate::verif_root(), def.id);
        if let Ok(rd) = std::fs::read_dir(&dir) {
            let mut files: Vec<_> = rd.filter_map(|e| e.ok()).map(|e| e.path()).collect();
            files.sort();
            for f in files {
                if f.extension().map_or(true, |e| e != "json") {
                    continue;
                }
                let path = f.to_string_lossy().to_string();
                match Case::load(&path) {
                    Ok(case) => {
                        let (r, mut cs) = eval(def.check, &case);
                        cs.label("corpus");
                        let h = case.hash64();
                        stats.absorb(h, cs, None);
                        if let Err(m) = r {
                            return (stats, Some(Failure { message: format!("{m} (corpus file {path})"), case: Some(case) }));
                        }
                    }
                    Err(e) => {
                        return (stats, Some(Failure { message: format!("INFRA: unreadable corpus file: {e}"), case: None }))
                    }
                }
            }
        }
        if let Some(fixed) = def.fixed {
            if let Err(f) = fixed(tier, &mut stats) {
                return (stats, Some(f));
            }
        }
    }
    let total = (def.cases)(tier);
    let per = total / of + if shard < total % of { 1 } else { 0 };
    if per == 0 {
        return (stats, None);
    }
    let config = Config {
        cases: per as u32,
        failure_persistence: None,
        max_shrink_iters: 3000,
        max_shrink_time: 120_000,
        max_global_rejects: 1_000_000,
        max_local_rejects: 1_000_000,
        ..Config::default()
    };
    let rng = TestRng::from_seed(RngAlgorithm::ChaCha, &mix(seed, def.id, shard, 0));
    let mut runner = TestRunner::new_with_rng(config, rng);
    let strategy = (def.strategy)(tier);
    let st = RefCell::new(&mut stats);
    let failed = RefCell::new(false);
    let first_msg: RefCell<Option<String>> = RefCell::new(None);
    let trace = std::env::var_os("MVV_TRACE").is_some();
    // Per-case hang guard: a case that is still running after the limit (quick 240 s, thorough
    // 1800 s; the slowest legitimate case seen is 60 s single threaded) makes the shard write the
    // input to replays/ and exit, so that the parent can report "suspected hang" with a replay
    // file within minutes instead of waiting for its own watchdog. A time limit is never a
    // verdict: the run is INCONCLUSIVE (exit 2).
    let guard: std::sync::Arc<std::sync::Mutex<Option<(Instant, String)>>> = Default::default();
    {
        let guard = guard.clone();
        let limit = Duration::from_secs(tier.pick(240, 1800));
        let id = def.id;
        std::thread::spawn(move || loop {
            std::thread::sleep(Duration::from_secs(2));
            if let Ok(g) = guard.lock() {
                if let Some((t, json)) = g.as_ref() {
                    if t.elapsed() > limit {
                        let mut h = 0xcbf2_9ce4_8422_2325u64;
                        for b in json.bytes() {
                            h ^= b as u64;
                            h = h.wrapping_mul(0x100_0000_01B3);
                        }
                        let path = format!("{}/replays/{}-hang-{:016x}.json", crate::verif_root(), id, h);
                        let _ = std::fs::create_dir_all(format!("{}/replays", crate::verif_root()));
                        let _ = std::fs::write(&path, json);
                        println!("SHARD-HANG {} s replay={}", limit.as_secs(), path);
                        std::process::exit(3);
                    }
                }
            }
        });
    }
    let result = runner.run(&strategy, |case| {
        if let Ok(mut g) = guard.lock() {
            *g = Some((Instant::now(), serde_json::to_string_pretty(&case.to_json()).unwrap_or_default()));
        }
        if trace {
            eprintln!("TRACE {}", serde_json::to_string(&case.to_json()).unwrap());
        }
        let t_case = Instant::now();
        let (r, mut cs) = eval(def.check, &case);
        if let Ok(mut g) = guard.lock() {
            *g = None;
        }
        // informational only (never part of a verdict)
        cs.max("slowest_case_ms", t_case.elapsed().as_secs_f64() * 1e3);
        if t_case.elapsed().as_secs_f64() > 5. {
            eprintln!("SLOW {:.1}s {}", t_case.elapsed().as_secs_f64(), serde_json::to_string(&case.to_sample()).unwrap());
        }
        let already_failed = *failed.borrow();
        if !already_failed {
            // counting stops at the first failure (the closure re-runs during shrinking)
            let mut s = st.borrow_mut();
            let want_sample = s.samples.is_empty() || (cs.nontrivial && s.samples.len() < 3);
            let sample = if want_sample { Some(case.to_sample()) } else { None };
            s.absorb(case.hash64(), cs, sample);
        }
        match r {
            Ok(()) => Ok(()),
            Err(m) => {
                *failed.borrow_mut() = true;
                if first_msg.borrow().is_none() {
                    *first_msg.borrow_mut() = Some(m.clone());
                }
                Err(TestCaseError::fail(m))
            }
        }
    });
    drop(st);
    match result {
        Ok(()) => (stats, None),
        Err(TestError::Fail(reason, case)) => {
            let message = format!("{}", reason);
            (stats, Some(Failure { message, case: Some(case) }))
        }
        Err(TestError::Abort(reason)) => (
            stats,
            Some(Failure { message: format!("INFRA: proptest aborted: {reason}"), case: None }),
        ),
    }
}

/// Draw `k` values from a strategy with a fixed seed (used by selftests and fuzz seeding).
pub fn sample_strategy(strategy: &BoxedStrategy<Case>, seed: u64, k: usize) -> Vec<Case> {
    let rng = TestRng::from_seed(RngAlgorithm::ChaCha, &mix(seed, "sample", 0, 0));
    let mut runner = TestRunner::new_with_rng(Config::default(), rng);
    (0..k).filter_map(|_| strategy.new_tree(&mut runner).ok().map(|t| t.current())).collect()
}

pub fn failure_json(def_id: &str, f: &Failure) -> Value {
    json!({ "property": def_id, "message": f.message, "case": f.case.as_ref().map(|c| c.to_json()) })
}

// ------------------------------------------------------------------------------------------
// parent side

pub struct ShardOut {
    pub stats: Stats,
    pub failure: Option<Failure>,
    pub infra: Option<String>,
}

fn profile_bin(profile: &str) -> String {
    let key = format!("MVV_BIN_{}", profile.to_uppercase());
    if let Ok(p) = std::env::var(&key) {
        return p;
    }
    format!("{}/target/harness/{}/mvv", crate::verif_root(), profile)
}

/// Spawn all shards of all profiles, at most `par` at a time; kill everything on timeout.
pub fn run_parent(def: &PropDef, tier: Tier, seed: u64) -> i32 {
    let t0 = Instant::now();
    let budget = Duration::from_secs(match tier {
        Tier::Quick => 1500,
        Tier::Thorough => 6 * 3600,
    });
    let par: usize = std::env::var("MVV_PAR").ok().and_then(|s| s.parse().ok()).unwrap_or(16);
    let mut jobs: Vec<(String, u64)> = vec![];
    for p in def.profiles {
        for k in 0..SHARDS {
            jobs.push((p.to_string(), k));
        }
    }
    let shard_dir = format!("{}/target/shards/{}", crate::verif_root(), std::process::id());
    let _ = std::fs::create_dir_all(&shard_dir);
    let mut pending = jobs.into_iter();
    let mut running: Vec<(String, u64, std::process::Child)> = vec![];
    let mut outs: Vec<(String, u64, ShardOut)> = vec![];
    let mut infra: Option<String> = None;
    loop {
        while running.len() < par {
            match pending.next() {
                Some((profile, k)) => {
                    let bin = profile_bin(&profile);
                    let base = format!("{}/{}-{}-{}", shard_dir, def.id, profile, k);
                    let fo = std::fs::File::create(format!("{base}.out"));
                    let fe = std::fs::File::create(format!("{base}.err"));
                    let (fo, fe) = match (fo, fe) {
                        (Ok(a), Ok(b)) => (a, b),
                        _ => {
                            infra = Some(format!("cannot create shard files under {shard_dir}"));
                            break;
                        }
                    };
                    let child = std::process::Command::new(&bin)
                        .args(["shard", def.id, "--tier", tier.name(), "--seed", &seed.to_string(), "--k", &k.to_string(), "--of", &SHARDS.to_string()])
                        .env("RAYON_NUM_THREADS", std::env::var("MVV_SHARD_THREADS").unwrap_or("1".into()))
                        .stdout(std::process::Stdio::from(fo))
                        .stderr(std::process::Stdio::from(fe))
                        .spawn();
                    match child {
                        Ok(c) => running.push((profile, k, c)),
                        Err(e) => {
                            infra = Some(format!("cannot spawn {bin}: {e}"));
                            break;
                        }
                    }
                }
                None => break,
            }
        }
        if infra.is_some() {
            break;
        }
        if running.is_empty() {
            break;
        }
        let mut i = 0;
        let mut progressed = false;
        while i < running.len() {
            match running[i].2.try_wait() {
                Ok(Some(status)) => {
                    let (profile, k, _child) = running.remove(i);
                    let base = format!("{}/{}-{}-{}", shard_dir, def.id, profile, k);
                    let so = std::fs::read_to_string(format!("{base}.out")).unwrap_or_default();
                    let se = std::fs::read_to_string(format!("{base}.err")).unwrap_or_default();
                    let _ = std::fs::remove_file(format!("{base}.out"));
                    let _ = std::fs::remove_file(format!("{base}.err"));
                    let out = parse_shard_output(&so, &se, status.code());
                    outs.push((profile, k, out));
                    progressed = true;
                }
                Ok(None) => i += 1,
                Err(e) => {
                    infra = Some(format!("wait failed: {e}"));
                    break;
                }
            }
        }
        if t0.elapsed() > budget {
            infra = Some(format!("watchdog: exceeded {} s (inconclusive, not a violation)", budget.as_secs()));
            break;
        }
        if !progressed {
            std::thread::sleep(Duration::from_millis(5));
        }
    }
    for (_, _, c) in running.iter_mut() {
        let _ = c.kill();
        let _ = c.wait();
    }
    let _ = std::fs::remove_dir_all(&shard_dir);

    let mut stats = Stats::default();
    let mut failures: Vec<(String, u64, Failure)> = vec![];
    outs.sort_by(|a, b| (a.0.clone(), a.1).cmp(&(b.0.clone(), b.1)));
    let mut per_profile: BTreeMap<String, u64> = BTreeMap::new();
    for (profile, k, o) in outs {
        *per_profile.entry(profile.clone()).or_insert(0) += o.stats.evaluations;
        stats.merge(o.stats);
        if let Some(m) = o.infra {
            infra.get_or_insert(format!("shard {profile}/{k}: {m}"));
        }
        if let Some(f) = o.failure {
            if f.message.starts_with("INFRA:") {
                infra.get_or_insert(format!("shard {profile}/{k}: {}", f.message));
            } else {
                failures.push((profile, k, f));
            }
        }
    }

    // known findings
    let known = crate::known::load(def.id);
    for k in &known {
        println!("KNOWN-FINDING: property={} {}", def.id, k.text);
    }
    let mut violations: Vec<(String, u64, Failure)> = vec![];
    let mut known_hits = 0u64;
    for (p, k, f) in failures {
        if known.iter().any(|kf| kf.matches(&f)) {
            known_hits += 1;
        } else {
            violations.push((p, k, f));
        }
    }

    let wall = t0.elapsed().as_secs_f64();
    let missing: Vec<&str> = def
        .required
        .iter()
        .copied()
        .filter(|r| stats.classes.get(*r).copied().unwrap_or(0) == 0 && stats.counters.get(*r).copied().unwrap_or(0) == 0)
        .collect();

    let mut replay_paths = vec![];
    for (profile, _k, f) in &violations {
        let h = f.case.as_ref().map(|c| c.hash64()).unwrap_or(0);
        let path = format!("{}/replays/{}-{:016x}.json", crate::verif_root(), def.id, h);
        let _ = std::fs::create_dir_all(format!("{}/replays", crate::verif_root()));
        let mut v = failure_json(def.id, f);
        v["profile"] = json!(profile);
        v["seed"] = json!(seed);
        let _ = std::fs::write(&path, serde_json::to_string_pretty(&v).unwrap());
        replay_paths.push(path);
    }

    write_evidence(def, tier, seed, &stats, wall, violations.len(), known_hits, &per_profile, infra.as_deref(), &missing);

    if !violations.is_empty() {
        for ((profile, _k, f), path) in violations.iter().zip(&replay_paths) {
            println!("failure [{}]: {}", profile, f.message);
            println!("VIOLATION property={} replay={}", def.id, path);
        }
        return 1;
    }
    if let Some(m) = infra {
        println!("INCONCLUSIVE property={} {}", def.id, m);
        return 2;
    }
    if !missing.is_empty() {
        println!("INCONCLUSIVE property={} generator regression: required classes never produced: {:?}", def.id, missing);
        return 2;
    }
    println!(
        "OK property={} tier={} seed={} evaluations={} distinct_nontrivial={} wall_s={:.1}",
        def.id,
        tier.name(),
        seed,
        stats.evaluations,
        stats.nontrivial.len(),
        wall
    );
    0
}

fn parse_shard_output(so: &str, se: &str, code: Option<i32>) -> ShardOut {
    for line in so.lines().rev() {
        if let Some(rest) = line.strip_prefix("SHARD-RESULT ") {
            if let Ok(v) = serde_json::from_str::<Value>(rest) {
                let stats = Stats::from_json(&v["stats"]);
                let failure = if v["failure"].is_null() {
                    None
                } else {
                    Some(Failure {
                        message: v["failure"]["message"].as_str().unwrap_or("?").to_string(),
                        case: Case::from_json(&v["failure"]["case"]).ok(),
                    })
                };
                return ShardOut { stats, failure, infra: None };
            }
        }
    }
    if let Some(line) = so.lines().rev().find(|l| l.starts_with("SHARD-HANG ")) {
        return ShardOut {
            stats: Stats::default(),
            failure: None,
            infra: Some(format!("one case did not finish within {} (suspected hang; a time limit is never a verdict); the input can be replayed from the file named there", &line["SHARD-HANG ".len()..])),
        };
    }
    let tail: String = se.chars().rev().take(600).collect::<String>().chars().rev().collect();
    ShardOut {
        stats: Stats::default(),
        failure: None,
        infra: Some(format!("shard produced no result (exit {:?}); stderr tail: {}", code, tail)),
    }
}

#[allow(clippy::too_many_arguments)]
fn write_evidence(
    def: &PropDef,
    tier: Tier,
    seed: u64,
    stats: &Stats,
    wall: f64,
    violations: usize,
    known_hits: u64,
    per_profile: &BTreeMap<String, u64>,
    infra: Option<&str>,
    missing: &[&str],
) {
    let v = json!({
        "property_id": def.id,
        "tier": tier.name(),
        "seed": seed,
        "level": "exploration",
        "coverage": {
            "evaluations": stats.evaluations,
            "distinct_nontrivial": stats.nontrivial.len(),
            "rule": def.rule,
            "samples": stats.samples,
            "exhaustive": stats.exhaustive,
            "classes": stats.classes,
            "counters": stats.counters,
            "maxima": stats.maxima.iter().map(|(k, v)| (k.clone(), json!(if v.is_finite() { *v } else { -1. }))).collect::<BTreeMap<_, _>>(),
            "evaluations_per_profile": per_profile,
            "known_findings_hit": known_hits,
            "inconclusive": infra,
            "required_classes_missing": missing,
        },
        "assumptions": def.assumptions,
        "wall_s": wall,
        "violations": violations,
    });
    let dir = format!("{}/evidence", crate::verif_root());
    let _ = std::fs::create_dir_all(&dir);
    let _ = std::fs::write(format!("{dir}/{}.json", def.id), serde_json::to_string_pretty(&v).unwrap());
}

/// Replay one case file through the property's oracle, bypassing proptest. Returns exit code.
pub fn replay(def: &PropDef, path: &str) -> i32 {
    match Case::load(path) {
        Ok(case) => {
            let (r, cs) = eval(def.check, &case);
            match r {
                Ok(()) => {
                    println!("replay OK property={} nontrivial={} labels={:?}", def.id, cs.nontrivial, cs.labels);
                    0
                }
                Err(m) => {
                    println!("failure: {m}");
                    println!("VIOLATION property={} replay={}", def.id, path);
                    1
                }
            }
        }
        Err(e) => {
            println!("INCONCLUSIVE cannot load {path}: {e}");
            2
        }
    }
}
