//! Comparison of a library cell with the brute-force reference, "up to rounding".
//!
//! What "up to rounding" means is measured, not postulated: the reference cell is recomputed
//! a few times with every site perturbed by the size of the rounding the library applies to its
//! input by design (it snaps generators to a 52-bit integer grid for its exact predicate, and
//! computes in global coordinates). The variation of each quantity under that perturbation is
//! its condition; the tolerance is a multiple of it plus a floor for the floating point
//! evaluation itself. Ill-posed quantities (the split of a face between two generators that are
//! 1e-11 apart, the length of a strip between exactly collinear generators) thereby get the
//! loose tolerance they deserve and everything else a tight one.
use crate::case::Case;
use crate::obs::{self, PlaneFace};
use crate::refmodel::{ref_cell, sites_rel, RefCell, RefOpts, Tag};
use crate::runner::CaseStats;
use crate::tol;
use glam::DVec3;
use meshless_voronoi::integrals::VolumeCentroidIntegral;
use meshless_voronoi::{ConvexCell, ConvexCellMarker};
use std::collections::BTreeMap;

pub const REPLICAS: u64 = 3;
/// safety factor on the measured variation
pub const VAR_FACTOR: f64 = 8.;

pub struct FaceVar {
    pub area: f64,
    pub centroid: f64,
    pub min_area: f64,
}

pub struct RefBundle {
    pub base: RefCell,
    pub var_volume: f64,
    pub var_centroid: f64,
    pub faces: BTreeMap<Tag, FaceVar>,
    /// Hausdorff distance between the vertex sets of the replicas and the base
    pub var_vertex: f64,
    /// extent of the cell in 3D (slab included)
    pub r3: f64,
    /// perturbation that was applied
    pub delta: f64,
}

/// Size of the input rounding: grid snapping plus representation of coordinates of size L.
pub fn input_rounding(c: &Case) -> f64 {
    2. * (tol::grid_spacing(c) + 2. * tol::U * c.scale_l())
}

fn hausdorff(a: &[DVec3], b: &[DVec3]) -> f64 {
    let one = |x: &[DVec3], y: &[DVec3]| x.iter().map(|p| y.iter().map(|q| p.distance(*q)).fold(f64::INFINITY, f64::min)).fold(0., f64::max);
    one(a, b).max(one(b, a))
}

pub fn ref_bundle(c: &Case, i: usize) -> RefBundle {
    let base = ref_cell(c, i, &RefOpts::default());
    let delta = input_rounding(c);
    let mut var_volume: f64 = 0.;
    let mut var_centroid: f64 = 0.;
    let mut var_vertex: f64 = 0.;
    let mut faces: BTreeMap<Tag, FaceVar> =
        base.faces.iter().map(|f| (f.tag, FaceVar { area: 0., centroid: 0., min_area: f.area })).collect();
    for k in 0..REPLICAS {
        let seed = c.hash64() ^ (k + 1).wrapping_mul(0xA24B_AED4_963E_E407) ^ (i as u64) << 17;
        let r = ref_cell(c, i, &RefOpts { jitter: Some((seed, delta)), ..RefOpts::default() });
        var_volume = var_volume.max((r.volume - base.volume).abs());
        var_centroid = var_centroid.max(r.centroid.distance(base.centroid));
        var_vertex = var_vertex.max(hausdorff(&r.vertices, &base.vertices));
        let rm: BTreeMap<Tag, &crate::refmodel::RefFace> = r.faces.iter().map(|f| (f.tag, f)).collect();
        for bf in &base.faces {
            let e = faces.get_mut(&bf.tag).unwrap();
            match rm.get(&bf.tag) {
                Some(f) => {
                    e.area = e.area.max((f.area - bf.area).abs());
                    e.centroid = e.centroid.max(f.centroid.distance(bf.centroid));
                    e.min_area = e.min_area.min(f.area);
                }
                None => {
                    e.area = e.area.max(bf.area);
                    e.centroid = f64::INFINITY;
                    e.min_area = 0.;
                }
            }
        }
        // faces that only exist in a replica
        for f in &r.faces {
            faces.entry(f.tag).or_insert(FaceVar { area: f.area, centroid: f64::INFINITY, min_area: 0. }).area =
                faces.get(&f.tag).map_or(f.area, |e| e.area.max(if base.faces.iter().any(|b| b.tag == f.tag) { 0. } else { f.area }));
        }
    }
    let r3 = base.vertices.iter().map(|v| v.distance(base.gen)).fold(0., f64::max);
    RefBundle { base, var_volume, var_centroid, faces, var_vertex, r3, delta }
}

pub fn face_key(c: &Case, right: Option<usize>, shift: Option<DVec3>, plane_idx: usize) -> Tag {
    match right {
        None => Tag::Wall(plane_idx),
        Some(j) => Tag::Site(j, obs::shift_ints(shift, &c.eff_width())),
    }
}

/// Outcome of comparing one cell.
pub struct CellCmp {
    /// the cell has a non-negligible face towards another generator
    pub has_nonwall_face: bool,
}

/// Compare one library cell with its reference, both directions. `Err` = mismatch in a
/// well-conditioned quantity.
pub fn compare_cell<M: ConvexCellMarker + 'static>(c: &Case, cell: &ConvexCell<M>, b: &RefBundle, cs: &mut CaseStats) -> Result<CellCmp, String> {
    let i = cell.idx;
    let r = &b.base;
    let kappas = obs::vertex_kappa(cell);
    let kmax = kappas.iter().cloned().fold(1., f64::max);
    let well = kmax <= tol::KAPPA_WELL;
    cs.count(if well { "cells_well_conditioned" } else { "cells_ill_conditioned" }, 1);
    let eps = tol::eps_pos(c) * kmax.min(tol::KAPPA_WELL);
    // a mismatch of a face or vertex of a cell with an ill-conditioned vertex is the listed
    // known finding (the cell's own volume and centroid are compared regardless)
    macro_rules! geometric_mismatch {
        ($($arg:tt)*) => {{
            if well {
                return Err(format!($($arg)*));
            } else {
                cs.count("known_ill_conditioned_mismatches", 1);
                cs.label("known-finding:ill-conditioned");
                return Ok(CellCmp { has_nonwall_face: false });
            }
        }};
    }
    let four_pi = 4. * std::f64::consts::PI;
    // analytic bound on what the snapping of a close neighbour can do to the presence of a small
    // face (the measured variation samples such discrete events too sparsely)
    let s_min = sites_rel(c, i, 1).iter().map(|x| x.2.length()).fold(f64::INFINITY, f64::min);
    // (extent: of the reference cell or of the library's cell, whichever is larger; a sliver that
    // pivots about a close pair may be cut short in one and extend across the box in the other)
    let r_lib = cell.vertices.iter().map(|v| v.loc.distance(cell.loc)).fold(0., f64::max);
    let r_ext = b.r3.max(r_lib.min(2. * c.eff_width().iter().map(|w| w * w).sum::<f64>().sqrt()));
    let presence_slack = if s_min.is_finite() { tol::snap_theta(c, s_min) * r_ext * 2. * std::f64::consts::PI * r_ext } else { 0. };
    // --- volume and centroid
    let vc: VolumeCentroidIntegral = cell.compute_cell_integral::<(), VolumeCentroidIntegral>(());
    let tolv = VAR_FACTOR * b.var_volume + eps * four_pi * b.r3 * b.r3 + 1e-11 * r.volume;
    let dv = (vc.volume - r.volume).abs();
    cs.max("volume_diff_over_tol", dv / tolv);
    if dv > tolv {
        return Err(format!("cell {i}: volume {:e} differs from the brute-force cell {:e} by {:e} > tol {:e} (measured sensitivity {:e})", vc.volume, r.volume, dv, tolv, b.var_volume));
    }
    if tolv < 0.125 * r.volume {
        let tolc = VAR_FACTOR * b.var_centroid + 2. * b.r3 * tolv / r.volume + eps;
        let dc = tol::active_distance(c, vc.centroid, r.centroid);
        cs.max("centroid_diff_over_tol", dc / tolc);
        if dc > tolc {
            return Err(format!("cell {i}: centroid {:?} differs from the brute-force centroid {:?} by {:e} > tol {:e}", vc.centroid, r.centroid, dc, tolc));
        }
        cs.count("centroids_compared", 1);
    } else {
        cs.count("centroids_skipped_unresolved_cell", 1);
    }
    // --- faces, both directions
    let thr = tol::face_threshold(c);
    let lib_faces: Vec<PlaneFace> = cell.compute_face_integrals::<(), PlaneFace>(()).into_iter().map(|f| f.integral().clone()).collect();
    let mut lib: BTreeMap<Tag, (f64, DVec3)> = BTreeMap::new();
    for f in &lib_faces {
        let hs = &cell.clipping_planes[f.plane_idx];
        let key = face_key(c, hs.right_idx, hs.shift, f.plane_idx);
        if let Some(j) = hs.right_idx {
            if j >= c.n() {
                return Err(format!("cell {i}: face towards generator {j} which does not exist"));
            }
            if j == i && hs.shift.is_none() {
                return Err(format!("cell {i}: face towards itself without shift"));
            }
        }
        if lib.insert(key, (f.area, f.centroid)).is_some() {
            return Err(format!("cell {i}: two faces with the same neighbour and shift {:?}", key));
        }
    }
    let skip_tag = |t: &Tag| matches!(t, Tag::Wall(k) if k / 2 >= c.d());
    let mut has_nonwall_face = false;
    for rf in &r.faces {
        if skip_tag(&rf.tag) {
            continue;
        }
        let fv = &b.faces[&rf.tag];
        // (presence_slack: the bisector with a very close neighbour is only defined up to a rotation;
        // the random replicas cannot sample the exactly aligned configuration that the rounding of
        // `generator + shift` produces systematically, so the analytic bound is added for every face)
        let tola = VAR_FACTOR * fv.area + eps * (rf.perimeter + 2. * std::f64::consts::PI * eps) + 1e-11 * rf.area + presence_slack;
        match lib.get(&rf.tag) {
            Some((a, cen)) => {
                let da = (a - rf.area).abs();
                if tol::lowdim_area_unreliable(c) {
                    cs.count("known_lowdim_large_coordinates_faces_not_compared", 1);
                    cs.label("known-finding:lowdim-large-coordinates");
                    if matches!(rf.tag, Tag::Site(..)) && rf.area > thr {
                        has_nonwall_face = true;
                    }
                    continue;
                }
                if a.max(rf.area) <= thr {
                    // both sides agree that the face is negligible: nothing is claimed about it
                    cs.count("negligible_faces_on_both_sides", 1);
                    continue;
                }
                cs.max("area_diff_over_tol", da / tola);
                if da > tola {
                    geometric_mismatch!("cell {i}: face {:?} has area {:e}, brute force {:e} (diff {:e} > tol {:e}, measured sensitivity {:e})", rf.tag, a, rf.area, da, tola, fv.area);
                }
                cs.count("faces_compared", 1);
                if rf.area > thr && tola < 0.125 * rf.area && fv.centroid.is_finite() {
                    let tolc = VAR_FACTOR * fv.centroid + 8. * rf.perimeter * tola / rf.area + eps;
                    let dc = cen.distance(rf.centroid);
                    cs.max("face_centroid_diff_over_tol", dc / tolc);
                    if dc > tolc {
                        geometric_mismatch!("cell {i}: face {:?} centroid {:?} vs brute force {:?} (diff {:e} > tol {:e})", rf.tag, cen, rf.centroid, dc, tolc);
                    }
                    cs.count("face_centroids_compared", 1);
                }
                if matches!(rf.tag, Tag::Site(..)) && rf.area > thr {
                    has_nonwall_face = true;
                }
            }
            None => {
                if rf.area > thr + tola + presence_slack {
                    geometric_mismatch!("cell {i}: MISSING face {:?}: brute force area {:e} (threshold {:e}, tol {:e})", rf.tag, rf.area, thr, tola);
                }
                cs.count("negligible_ref_faces_absent_in_library", 1);
            }
        }
    }
    for (key, (a, _)) in &lib {
        if r.faces.iter().any(|f| f.tag == *key) {
            continue;
        }
        let var = b.faces.get(key).map_or(0., |f| f.area);
        let tola = VAR_FACTOR * var + eps * 2. * std::f64::consts::PI * (b.r3 + eps);
        if tol::lowdim_area_unreliable(c) {
            continue;
        }
        if *a > thr + tola + presence_slack {
            geometric_mismatch!("cell {i}: SPURIOUS face {:?} of area {:e} (threshold {:e}, tol {:e}), absent from the brute-force cell", key, a, thr, tola);
        }
        cs.count("negligible_library_faces_absent_in_ref", 1);
    }
    // --- vertices: library cell inside the true cell (definition level: direct distance
    // comparisons against every site), reference vertices inside the library cell
    let gens = c.eff_gens();
    let g = DVec3::from_array(gens[i]);
    let sites = sites_rel(c, i, 2);
    for (v, kv) in cell.vertices.iter().zip(&kappas) {
        if *kv > tol::KAPPA_WELL {
            cs.count("vertices_skipped_ill_conditioned", 1);
            continue;
        }
        let x = v.loc - g;
        let tolv = tol::eps_pos(c) * kv + VAR_FACTOR * b.var_vertex;
        for (j, s, rel) in &sites {
            // |x|^2 - |x - rel|^2 = 2 x.rel - |rel|^2 must be <= 0 (within 2 |rel| tol)
            let e = 2. * x.dot(*rel) - rel.length_squared();
            if e > 2. * rel.length() * tolv {
                return Err(format!("cell {i}: vertex {:?} (conditioning {:e}) is closer to site {j} shift {:?} than to its own generator (excess {:e} > tol {:e})", v.loc, kv, s, e / (2. * rel.length()), tolv));
            }
        }
        cs.count("vertices_checked", 1);
    }
    if well {
        let tolp = eps + VAR_FACTOR * b.var_vertex + 1e-11 * b.r3;
        for rv in &r.vertices {
            for hs in &cell.clipping_planes {
                let dist = hs.plane.n.dot(*rv - hs.plane.p);
                if dist < -tolp {
                    return Err(format!("cell {i}: brute-force vertex {:?} lies outside the library cell (half space towards {:?}/{:?}) by {:e} > tol {:e}", rv, hs.right_idx, hs.shift, -dist, tolp));
                }
            }
        }
    }
    Ok(CellCmp { has_nonwall_face })
}

/// Does the case contain generators whose mutual arrangement is not determined by the input
/// "up to rounding"? Seen from generator i, two other sites j, k whose directions coincide
/// within the angular uncertainty alpha = 4 delta / distance that the input rounding delta
/// leaves, and whose bisectors are so close that they may cross anywhere inside the cell
/// (| |rel_j| - |rel_k| | / 2 < R alpha), have an undetermined order around the cell: e.g. the
/// middle one of three collinear generators 1e-12 apart owns either a long strip or a vanishing
/// wedge. Faces, volumes and neighbour relations of such cells (and of every cell bordering
/// them) are ill-posed; such cases are only subjected to the global checks (tiling, finiteness).
pub fn unresolvable(c: &Case) -> bool {
    let delta = input_rounding(c);
    let tight = 1e-5 * c.scale_l();
    let w = c.eff_width();
    let a = c.eff_anchor();
    let d = c.d();
    let diag = (0..d).map(|k| w[k] * w[k]).sum::<f64>().sqrt();
    let gens = c.eff_gens();
    // all points, plus the periodic copies of those within `tight` of the seam
    let mut pts: Vec<(usize, DVec3, bool)> = gens.iter().enumerate().map(|(i, g)| (i, DVec3::from_array(*g), true)).collect();
    if c.periodic {
        for (i, g) in gens.iter().enumerate() {
            let mut shifts: Vec<DVec3> = vec![DVec3::ZERO];
            for k in 0..d {
                let mut extra = vec![];
                for s in &shifts {
                    if g[k] - a[k] < tight {
                        let mut t = *s;
                        t[k] += w[k];
                        extra.push(t);
                    }
                    if a[k] + w[k] - g[k] < tight {
                        let mut t = *s;
                        t[k] -= w[k];
                        extra.push(t);
                    }
                }
                shifts.extend(extra);
            }
            for s in shifts.into_iter().skip(1) {
                pts.push((i, DVec3::from_array(*g) + s, false));
            }
        }
    }
    pts.sort_by(|x, y| x.1.x.partial_cmp(&y.1.x).unwrap());
    let m = pts.len();
    for p in 0..m {
        if !pts[p].2 {
            continue; // only original points act as the centre
        }
        // tight neighbours of pts[p]
        let mut near: Vec<DVec3> = vec![];
        let mut q = p;
        while q > 0 && pts[p].1.x - pts[q - 1].1.x < tight {
            q -= 1;
        }
        while q < m && pts[q].1.x - pts[p].1.x < tight {
            if q != p {
                let rel = pts[q].1 - pts[p].1;
                let l = rel.length();
                if l < tight && l > 0. {
                    near.push(rel);
                }
            }
            q += 1;
        }
        // candidates sorted by distance: only pairs whose bisectors are closer to each other
        // than R alpha matter, which bounds the inner loop
        let mut near: Vec<(f64, DVec3)> = near.into_iter().map(|r| (r.length(), r)).collect();
        near.sort_by(|x, y| x.0.partial_cmp(&y.0).unwrap());
        for x in 0..near.len() {
            let (la, ra) = near[x];
            for y in x + 1..near.len() {
                let (lb, rb) = near[y];
                let alpha = 4. * delta / la + 4. * delta / lb;
                if (lb - la) * 0.5 >= diag * alpha {
                    break;
                }
                let sin = ra.cross(rb).length() / (la * lb);
                if ra.dot(rb) > 0. && sin < alpha {
                    return true;
                }
            }
        }
    }
    false
}
