//! Per-cell conditioning information derived from the library's own planes and vertices, used
//! by the reference-free checks (C02, C03, C04, C16) to scale their rounding tolerances.
use crate::case::Case;
use crate::obs;
use crate::tol;
use meshless_voronoi::{ConvexCellMarker, VoronoiIntegrator};

#[derive(Clone, Debug)]
pub struct CellInfo {
    pub kappa: f64,
    /// distance to the nearest neighbour that has a plane in the cell, or the smallest distance
    /// between two such neighbours, whichever is smaller
    pub s_min: f64,
    /// radius of a ball around the generator that contains the cell (safety radius / 2)
    pub r: f64,
    /// uncertainty of a position in this cell: floating point evaluation + snapping of close pairs
    pub pos: f64,
    pub well: bool,
}

pub fn cell_infos<M: ConvexCellMarker + 'static>(c: &Case, vi: &VoronoiIntegrator<M>) -> Vec<Option<CellInfo>> {
    (0..c.n())
        .map(|i| {
            vi.get_cell_at(i).map(|cell| {
                let kappa = obs::vertex_kappa(cell).into_iter().fold(1., f64::max);
                let s_min = cell
                    .clipping_planes
                    .iter()
                    .filter(|p| p.right_idx.is_some())
                    .map(|p| 2. * (p.plane.p - cell.loc).dot(p.plane.n).abs())
                    .fold(f64::INFINITY, f64::min);
                // a close PAIR among the neighbours matters as much as a close neighbour: the
                // bisector between two sites j, k at distance s_jk is only defined up to a rotation
                // of (h + 2 u L) / s_jk, which moves the edge where the faces (i|j) and (i|k) of this
                // cell meet (the split between them), although no vertex of this cell is badly
                // conditioned
                let rights: Vec<glam::DVec3> = cell.clipping_planes.iter().filter(|p| p.right_idx.is_some()).map(|p| 2. * p.plane.p - cell.loc).collect();
                let mut s_pair = f64::INFINITY;
                for (a, ra) in rights.iter().enumerate() {
                    for rb in &rights[..a] {
                        let dd = ra.distance(*rb);
                        if dd > 0. {
                            s_pair = s_pair.min(dd);
                        }
                    }
                }
                let s_min = s_min.min(s_pair);
                let w = c.eff_width();
                let diag = (0..c.d()).map(|k| w[k] * w[k]).sum::<f64>().sqrt() * if c.periodic { 2. } else { 1. };
                let r = (0.5 * meshless_voronoi::verif_hooks::cell_safety_radius(cell)).min(diag);
                let snap = if s_min.is_finite() { tol::snap_theta(c, s_min) * r } else { 0. };
                let well = kappa <= tol::KAPPA_WELL;
                CellInfo { kappa, s_min, r, pos: tol::eps_pos(c) * kappa.min(tol::KAPPA_CAP) + snap, well }
            })
        })
        .collect()
}

/// Bound on the boundary measure of a cell inside the ball of radius r (unit thickness along
/// unused axes).
pub fn ball_surface(d: usize, r: f64) -> f64 {
    match d {
        1 => 2.,
        2 => 2. * std::f64::consts::PI * r + 2. * std::f64::consts::PI * r * r,
        _ => 4. * std::f64::consts::PI * r * r,
    }
}
/// Bound on the perimeter of a face of a cell inside the ball of radius r.
pub fn face_perimeter_bound(d: usize, r: f64) -> f64 {
    match d {
        1 => 4.,
        2 => 4. * r + 2.,
        _ => 2. * std::f64::consts::PI * r,
    }
}
