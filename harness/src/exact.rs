//! Independent exact arithmetic for the in-sphere predicate (harness side, num-bigint).
use num_bigint::BigInt;
use num_traits::{Signed, Zero};

fn b(x: i64) -> BigInt {
    BigInt::from(x)
}

/// Sign of the determinant of a square BigInt matrix by fraction-free (Bareiss) elimination.
pub fn det_sign_bareiss(mut m: Vec<Vec<BigInt>>) -> i32 {
    let n = m.len();
    let mut sign = 1;
    let mut prev = BigInt::from(1);
    for k in 0..n {
        // pivot
        if m[k][k].is_zero() {
            match (k + 1..n).find(|&r| !m[r][k].is_zero()) {
                Some(r) => {
                    m.swap(k, r);
                    sign = -sign;
                }
                None => return 0,
            }
        }
        for i in k + 1..n {
            for j in k + 1..n {
                let v = (&m[i][j] * &m[k][k] - &m[i][k] * &m[k][j]) / &prev;
                m[i][j] = v;
            }
        }
        prev = m[k][k].clone();
    }
    let d = &m[n - 1][n - 1];
    if d.is_zero() {
        0
    } else if d.is_positive() {
        sign
    } else {
        -sign
    }
}

/// Lifted relative coordinates (x, y, z, x^2 + y^2 + z^2) of p with respect to a.
fn lifted(p: &[i64; 3], a: &[i64; 3]) -> [BigInt; 4] {
    let d = [b(p[0]) - b(a[0]), b(p[1]) - b(a[1]), b(p[2]) - b(a[2])];
    let n2 = &d[0] * &d[0] + &d[1] * &d[1] + &d[2] * &d[2];
    [d[0].clone(), d[1].clone(), d[2].clone(), n2]
}

/// Sign of the 4x4 in-sphere determinant with the lifted b, c, d, v (relative to a) as columns.
pub fn insphere_sign(a: &[i64; 3], bb: &[i64; 3], c: &[i64; 3], d: &[i64; 3], v: &[i64; 3]) -> i32 {
    let cols = [lifted(bb, a), lifted(c, a), lifted(d, a), lifted(v, a)];
    let m: Vec<Vec<BigInt>> = (0..4).map(|r| (0..4).map(|col| cols[col][r].clone()).collect()).collect();
    det_sign_bareiss(m)
}

/// Orientation det[b - a, c - a, d - a] (rows) sign.
pub fn orient_sign(a: &[i64; 3], bb: &[i64; 3], c: &[i64; 3], d: &[i64; 3]) -> i32 {
    let rows = [lifted(bb, a), lifted(c, a), lifted(d, a)];
    let m: Vec<Vec<BigInt>> = rows.iter().map(|r| r[..3].to_vec()).collect();
    det_sign_bareiss(m)
}

/// Geometric meaning, derived independently of the determinant layout: with M the matrix with
/// rows b', c', d' (relative to a) and r = (|b'|^2, |c'|^2, |d'|^2), the circumcentre is
/// x = M^-1 r / 2 and v' is strictly inside the circumsphere iff |v'|^2 - 2 v'.x < 0. Returns
/// sign(|v'|^2 det M - sum_k v'_k det M_k) * sign(det M): -1 strictly inside, 0 on, +1 outside
/// (None for a flat tetrahedron).
pub fn inside_sphere(a: &[i64; 3], bb: &[i64; 3], c: &[i64; 3], d: &[i64; 3], v: &[i64; 3]) -> Option<i32> {
    let rows = [lifted(bb, a), lifted(c, a), lifted(d, a)];
    let vv = lifted(v, a);
    let m: Vec<Vec<BigInt>> = rows.iter().map(|r| r[..3].to_vec()).collect();
    let det3 = |m: &Vec<Vec<BigInt>>| -> BigInt {
        &m[0][0] * (&m[1][1] * &m[2][2] - &m[1][2] * &m[2][1]) - &m[0][1] * (&m[1][0] * &m[2][2] - &m[1][2] * &m[2][0])
            + &m[0][2] * (&m[1][0] * &m[2][1] - &m[1][1] * &m[2][0])
    };
    let dm = det3(&m);
    if dm.is_zero() {
        return None;
    }
    let mut e = &vv[3] * &dm;
    for k in 0..3 {
        let mut mk = m.clone();
        for r in 0..3 {
            mk[r][k] = rows[r][3].clone();
        }
        e -= &vv[k] * det3(&mk);
    }
    let s = |x: &BigInt| if x.is_zero() { 0 } else if x.is_positive() { 1 } else { -1 };
    Some(s(&e) * s(&dm))
}
