//! Brute-force reference Voronoi cell, independent of the library: the box clipped by the
//! bisector half-space of every other site (5^d periodic images, own images included), no
//! search structure, no security radius, no early exit. Computed in local coordinates x - g.
use crate::case::Case;
use glam::DVec3;
use std::collections::HashMap;

#[derive(Clone, Copy, Debug, PartialEq, Eq, Hash, PartialOrd, Ord)]
pub enum Tag {
    /// wall k: 0 = -x, 1 = +x, 2 = -y, 3 = +y, 4 = -z, 5 = +z (same numbering as the library's
    /// initial clipping planes)
    Wall(usize),
    /// neighbouring site j with integer period shift
    Site(usize, [i32; 3]),
}

#[derive(Clone, Debug)]
pub struct RefFace {
    pub tag: Tag,
    pub area: f64,
    /// global coordinates
    pub centroid: DVec3,
    /// unit normal pointing out of the cell
    pub normal: DVec3,
    pub perimeter: f64,
}

#[derive(Clone, Debug)]
pub struct RefCell {
    pub idx: usize,
    pub gen: DVec3,
    pub volume: f64,
    /// global coordinates
    pub centroid: DVec3,
    pub faces: Vec<RefFace>,
    /// global coordinates
    pub vertices: Vec<DVec3>,
    /// max distance generator -> vertex, measured in the active subspace
    pub max_vertex_dist: f64,
    pub surface: f64,
    /// raw moments in local coordinates: [1, x, y, z, xx, yy, zz, xy, xz, yz]
    pub moments: [f64; 10],
    /// number of bisector planes that actually cut the polyhedron
    pub cuts: usize,
}

#[derive(Clone)]
struct Poly {
    verts: Vec<DVec3>,
    faces: Vec<(Tag, DVec3, Vec<usize>)>, // tag, outward unit normal, vertex loop
}

impl Poly {
    fn cuboid(lo: DVec3, hi: DVec3) -> Poly {
        let v = |x: bool, y: bool, z: bool| DVec3::new(if x { hi.x } else { lo.x }, if y { hi.y } else { lo.y }, if z { hi.z } else { lo.z });
        let verts = vec![
            v(false, false, false),
            v(true, false, false),
            v(false, true, false),
            v(true, true, false),
            v(false, false, true),
            v(true, false, true),
            v(false, true, true),
            v(true, true, true),
        ];
        let faces = vec![
            (Tag::Wall(0), DVec3::NEG_X, vec![0, 4, 6, 2]),
            (Tag::Wall(1), DVec3::X, vec![1, 3, 7, 5]),
            (Tag::Wall(2), DVec3::NEG_Y, vec![0, 1, 5, 4]),
            (Tag::Wall(3), DVec3::Y, vec![2, 6, 7, 3]),
            (Tag::Wall(4), DVec3::NEG_Z, vec![0, 2, 3, 1]),
            (Tag::Wall(5), DVec3::Z, vec![4, 5, 7, 6]),
        ];
        Poly { verts, faces }
    }

    fn used_vertices(&self) -> Vec<usize> {
        let mut used = vec![false; self.verts.len()];
        for (_, _, l) in &self.faces {
            for &i in l {
                used[i] = true;
            }
        }
        (0..self.verts.len()).filter(|&i| used[i]).collect()
    }

    /// Keep the part with n.x <= d. Returns true if something was cut away.
    fn clip(&mut self, n: DVec3, d: f64, tag: Tag, tau: f64) -> bool {
        let s: Vec<f64> = self.verts.iter().map(|v| n.dot(*v) - d).collect();
        let used = self.used_vertices();
        if !used.iter().any(|&i| s[i] > tau) {
            return false;
        }
        let out = |i: usize| s[i] > tau;
        let on = |i: usize| s[i].abs() <= tau;
        let mut edge_new: HashMap<(usize, usize), usize> = HashMap::new();
        let mut cap: Vec<usize> = vec![];
        // directed edges of the cap polygon: every cut face contributes the segment between its
        // entry and its exit point, traversed against the direction of that face's loop
        let mut cap_edges: Vec<(usize, usize)> = vec![];
        let mut new_faces = Vec::with_capacity(self.faces.len() + 1);
        let faces = std::mem::take(&mut self.faces);
        for (ftag, fnorm, lp) in faces {
            if !lp.iter().any(|&i| out(i)) {
                new_faces.push((ftag, fnorm, lp));
                continue;
            }
            let m = lp.len();
            let mut nl: Vec<usize> = Vec::with_capacity(m + 2);
            let (mut exits, mut entries): (Vec<usize>, Vec<usize>) = (vec![], vec![]);
            for q in 0..m {
                let a = lp[q];
                let b = lp[(q + 1) % m];
                if !out(a) {
                    nl.push(a);
                }
                if out(a) != out(b) {
                    let (i_in, i_out) = if out(a) { (b, a) } else { (a, b) };
                    let vi = if on(i_in) {
                        i_in
                    } else {
                        let key = (i_in.min(i_out), i_in.max(i_out));
                        *edge_new.entry(key).or_insert_with(|| {
                            let t = s[i_in] / (s[i_in] - s[i_out]);
                            let p = self.verts[i_in] + t * (self.verts[i_out] - self.verts[i_in]);
                            self.verts.push(p);
                            self.verts.len() - 1
                        })
                    };
                    nl.push(vi);
                    cap.push(vi);
                    if out(a) {
                        entries.push(vi);
                    } else {
                        exits.push(vi);
                    }
                }
            }
            if exits.len() == 1 && entries.len() == 1 {
                if exits[0] != entries[0] {
                    cap_edges.push((entries[0], exits[0]));
                }
            } else if !(exits.is_empty() && entries.is_empty()) {
                // a loop that leaves the half space more than once (classification noise):
                // no chaining, the cap is ordered by angle
                cap_edges.push((usize::MAX, usize::MAX));
            }
            nl.dedup();
            while nl.len() > 1 && nl[0] == nl[nl.len() - 1] {
                nl.pop();
            }
            if nl.len() >= 3 {
                new_faces.push((ftag, fnorm, nl));
            }
        }
        // cap polygon: distinct cut vertices ordered by angle in the plane
        cap.sort();
        cap.dedup();
        if cap.len() >= 3 {
            if let Some(lp) = chain_cap(&cap, &cap_edges) {
                new_faces.push((tag, n, lp));
                self.faces = new_faces;
                return true;
            }
            if std::env::var("MVV_REFDBG").is_ok() {
                eprintln!("cap fallback: cap {:?} edges {:?}", cap, cap_edges);
            }
            let c = cap.iter().map(|&i| self.verts[i]).fold(DVec3::ZERO, |a, b| a + b) / cap.len() as f64;
            let u = n.any_orthonormal_vector();
            let w = n.cross(u);
            let mut ang: Vec<(f64, usize)> = cap
                .iter()
                .map(|&i| {
                    let r = self.verts[i] - c;
                    (r.dot(w).atan2(r.dot(u)), i)
                })
                .collect();
            ang.sort_by(|a, b| a.0.partial_cmp(&b.0).unwrap());
            new_faces.push((tag, n, ang.into_iter().map(|(_, i)| i).collect()));
        }
        self.faces = new_faces;
        true
    }
}

/// The cap polygon from its directed edges (one per cut face): a single simple cycle through all
/// cut vertices, or None. Unlike an ordering by angle about the centroid this does not depend on
/// the aspect ratio of the cap (a 2D box of size 1e-16 in a slab of unit thickness).
fn chain_cap(cap: &[usize], edges: &[(usize, usize)]) -> Option<Vec<usize>> {
    if edges.len() != cap.len() || edges.iter().any(|e| e.0 == usize::MAX) {
        return None;
    }
    let mut next: HashMap<usize, usize> = HashMap::new();
    for &(a, b) in edges {
        if next.insert(a, b).is_some() {
            return None;
        }
    }
    let start = cap[0];
    let mut lp = vec![start];
    let mut cur = *next.get(&start)?;
    while cur != start {
        if lp.len() > cap.len() {
            return None;
        }
        lp.push(cur);
        cur = *next.get(&cur)?;
    }
    if lp.len() == cap.len() {
        Some(lp)
    } else {
        None
    }
}

pub struct RefOpts {
    /// range of periodic images (2 => 5^d images)
    pub image_range: i32,
    /// clip in reverse order (self test of order independence)
    pub reverse: bool,
    /// perturb every site (each periodic image independently) by a pseudo random vector with
    /// components in [-delta, delta] along the active axes: (seed, delta). Used to measure how
    /// sensitive each quantity of the cell is to rounding of the input ("up to rounding").
    pub jitter: Option<(u64, f64)>,
}
impl Default for RefOpts {
    fn default() -> Self {
        RefOpts { image_range: 2, reverse: false, jitter: None }
    }
}

fn jitter_vec(seed: u64, j: usize, s: [i32; 3], d: usize, delta: f64) -> DVec3 {
    let mut x = seed ^ (j as u64).wrapping_mul(0x9E37_79B9_7F4A_7C15);
    for k in 0..3 {
        x ^= ((s[k] + 7) as u64).wrapping_mul(0xD6E8_FEB8_6659_FD93 << k);
    }
    let mut out = DVec3::ZERO;
    for k in 0..d {
        x ^= x >> 30;
        x = x.wrapping_mul(0xBF58_476D_1CE4_E5B9);
        x ^= x >> 27;
        x = x.wrapping_mul(0x94D0_49BB_1331_11EB);
        x ^= x >> 31;
        let u = (x >> 11) as f64 / (1u64 << 53) as f64;
        out[k] = (2. * u - 1.) * delta;
    }
    out
}

/// All sites (index, integer shift, position relative to generator i) other than i itself.
pub fn sites_rel(c: &Case, i: usize, image_range: i32) -> Vec<(usize, [i32; 3], DVec3)> {
    let gens = c.eff_gens();
    let w = c.eff_width();
    let g = DVec3::from_array(gens[i]);
    let d = c.d();
    let r = if c.periodic { image_range } else { 0 };
    let rng = |a: usize| if a < d { -r..=r } else { 0..=0 };
    let mut out = vec![];
    for (j, gj) in gens.iter().enumerate() {
        for sx in rng(0) {
            for sy in rng(1) {
                for sz in rng(2) {
                    if j == i && sx == 0 && sy == 0 && sz == 0 {
                        continue;
                    }
                    // relative position computed as (gj - g) + shift: the difference of two
                    // nearby generators is exact or nearly so, the shift is added afterwards
                    let rel = (DVec3::from_array(*gj) - g) + DVec3::new(sx as f64 * w[0], sy as f64 * w[1], sz as f64 * w[2]);
                    out.push((j, [sx, sy, sz], rel));
                }
            }
        }
    }
    out
}

pub fn ref_cell(c: &Case, i: usize, opts: &RefOpts) -> RefCell {
    let gens = c.eff_gens();
    let a = DVec3::from_array(c.eff_anchor());
    let w = DVec3::from_array(c.eff_width());
    let g = DVec3::from_array(gens[i]);
    let d = c.d();
    // initial box in local coordinates
    let mut lo = a - g;
    let mut hi = (a + w) - g;
    if c.periodic {
        for k in 0..d {
            lo[k] = -w[k];
            hi[k] = w[k];
        }
    }
    let mut poly = Poly::cuboid(lo, hi);
    // classification tolerance: relative to the extent of the box along the active axes (the
    // slab of unit thickness along unused axes must not set the scale of a small 2D box)
    let mut diag2 = 0.;
    for k in 0..d {
        diag2 += (hi[k] - lo[k]) * (hi[k] - lo[k]);
    }
    let tau = diag2.sqrt() * 2f64.powi(-50);
    let mut sites = sites_rel(c, i, opts.image_range);
    if let Some((seed, delta)) = opts.jitter {
        let own = jitter_vec(seed, i, [0; 3], d, delta);
        for (j, s, rel) in sites.iter_mut() {
            *rel += jitter_vec(seed, *j, *s, d, delta) - own;
        }
    }
    sites.sort_by(|x, y| x.2.length_squared().partial_cmp(&y.2.length_squared()).unwrap());
    if opts.reverse {
        sites.reverse();
    }
    let mut cuts = 0;
    for (j, s, rel) in sites {
        let len = rel.length();
        if !(len > 0.) {
            continue;
        }
        let n = rel / len;
        if poly.clip(n, 0.5 * len, Tag::Site(j, s), tau) {
            cuts += 1;
        }
    }
    measure(&poly, i, g, d, cuts)
}

fn measure(poly: &Poly, idx: usize, g: DVec3, d: usize, cuts: usize) -> RefCell {
    let mut volume = 0.;
    let mut first = DVec3::ZERO;
    let mut m2 = [0.; 6]; // xx yy zz xy xz yz
    let mut faces = vec![];
    let mut surface = 0.;
    for (tag, normal, lp) in &poly.faces {
        let v0 = poly.verts[lp[0]];
        let mut area_vec = DVec3::ZERO;
        let mut cen = DVec3::ZERO;
        let mut asum = 0.;
        let mut perimeter = 0.;
        for q in 0..lp.len() {
            perimeter += poly.verts[lp[q]].distance(poly.verts[lp[(q + 1) % lp.len()]]);
        }
        for q in 1..lp.len() - 1 {
            let v1 = poly.verts[lp[q]];
            let v2 = poly.verts[lp[q + 1]];
            let av = 0.5 * (v1 - v0).cross(v2 - v0);
            let ta = av.length();
            area_vec += av;
            asum += ta;
            cen += ta * (v0 + v1 + v2) / 3.;
            // tetrahedron (origin, v0, v1, v2)
            let tv = v0.dot(v1.cross(v2)).abs() / 6.;
            volume += tv;
            let s = v0 + v1 + v2;
            first += tv * s / 4.;
            let p = [DVec3::ZERO, v0, v1, v2];
            let comp = |v: DVec3, k: usize| v[k];
            let pairs = [(0, 0), (1, 1), (2, 2), (0, 1), (0, 2), (1, 2)];
            for (q2, (i, j)) in pairs.iter().enumerate() {
                let mut acc = 0.;
                for pk in &p {
                    acc += comp(*pk, *i) * comp(*pk, *j);
                }
                acc += comp(s, *i) * comp(s, *j);
                m2[q2] += tv / 20. * acc;
            }
        }
        let area = area_vec.length();
        let _ = asum;
        let centroid = if asum > 0. { cen / asum } else { v0 };
        surface += area;
        faces.push(RefFace { tag: *tag, area, centroid: centroid + g, normal: *normal, perimeter });
    }
    let used = poly.used_vertices();
    let mut max_vertex_dist: f64 = 0.;
    let mut vertices = vec![];
    for &i in &used {
        let v = poly.verts[i];
        let mut r2 = 0.;
        for k in 0..d {
            r2 += v[k] * v[k];
        }
        max_vertex_dist = max_vertex_dist.max(r2.sqrt());
        vertices.push(v + g);
    }
    let centroid_local = if volume > 0. { first / volume } else { DVec3::ZERO };
    RefCell {
        idx,
        gen: g,
        volume,
        centroid: centroid_local + g,
        faces,
        vertices,
        max_vertex_dist,
        surface,
        moments: [volume, first.x, first.y, first.z, m2[0], m2[1], m2[2], m2[3], m2[4], m2[5]],
        cuts,
    }
}

/// Independent 1D closed form: cell boundaries at midpoints of sorted neighbours.
/// Returns per generator (lo, hi) in global x.
pub fn closed_form_1d(c: &Case) -> Vec<(f64, f64)> {
    let n = c.n();
    let xs: Vec<f64> = c.gens.iter().map(|g| g[0]).collect();
    let mut order: Vec<usize> = (0..n).collect();
    order.sort_by(|&a, &b| xs[a].partial_cmp(&xs[b]).unwrap());
    let a = c.anchor[0];
    let w = c.width[0];
    let mut out = vec![(0., 0.); n];
    for (r, &i) in order.iter().enumerate() {
        let lo = if r > 0 {
            0.5 * (xs[order[r - 1]] + xs[i])
        } else if c.periodic {
            0.5 * ((xs[order[n - 1]] - w) + xs[i])
        } else {
            a
        };
        let hi = if r + 1 < n {
            0.5 * (xs[order[r + 1]] + xs[i])
        } else if c.periodic {
            0.5 * ((xs[order[0]] + w) + xs[i])
        } else {
            a + w
        };
        out[i] = (lo, hi);
    }
    out
}

// ------------------------------------------------------------------------------------------
// self test of the reference (run by setup): closed forms, Monte-Carlo membership against the
// definition (nearest site by direct distance comparison), order independence.

pub fn selftest() -> i32 {
    use crate::gen::{case_strategy, GenOpts};
    let strat = case_strategy(GenOpts { max_n: 24, max_offset_log2: 8, ..GenOpts::default() });
    let cases = crate::runner::sample_strategy(&strat, 12345, 300);
    let mut checked_points = 0u64;
    let mut bad = 0u64;
    for c in &cases {
        let n = c.n();
        let cells: Vec<RefCell> = (0..n).map(|i| ref_cell(c, i, &RefOpts::default())).collect();
        // (1) volumes tile the box
        let tot: f64 = cells.iter().map(|x| x.volume).sum();
        let boxm = c.box_measure();
        if (tot - boxm).abs() > 1e-9 * boxm {
            println!("selftest: total volume {tot} != {boxm} for {}", c.to_json());
            bad += 1;
        }
        // (2) order independence
        for i in 0..n.min(3) {
            let r = ref_cell(c, i, &RefOpts { reverse: true, ..RefOpts::default() });
            if (r.volume - cells[i].volume).abs() > 1e-9 * boxm.max(cells[i].volume) {
                println!("selftest: order dependence cell {i}: {} vs {}", r.volume, cells[i].volume);
                bad += 1;
            }
        }
        // (3) Monte-Carlo membership: a pseudo random point of the box is inside the reference
        // cell of its nearest site (all half spaces of that cell's faces satisfied).
        let ea = c.eff_anchor();
        let ew = c.eff_width();
        let gens = c.eff_gens();
        let mut x = c.hash64() | 1;
        for _ in 0..40 {
            let mut p = [0.; 3];
            for k in 0..3 {
                x ^= x << 13;
                x ^= x >> 7;
                x ^= x << 17;
                let u = (x >> 11) as f64 / (1u64 << 53) as f64;
                p[k] = if k < c.d() { ea[k] + u * ew[k] } else { 0. };
            }
            // nearest site by direct comparison (minimum image)
            let mut best = (f64::INFINITY, 0usize);
            for (j, g) in gens.iter().enumerate() {
                let dd = crate::gen::active_dist(c, &p, g);
                if dd < best.0 {
                    best = (dd, j);
                }
            }
            let cell = &cells[best.1];
            // bring p into the frame of the cell (minimum image)
            let mut q = DVec3::from_array(p);
            if c.periodic {
                for k in 0..c.d() {
                    let dx = q[k] - cell.gen[k];
                    q[k] -= (dx / ew[k]).round() * ew[k];
                }
            }
            let tol = 1e-9 * c.max_active_width();
            for f in &cell.faces {
                if (q - f.centroid).dot(f.normal) > tol {
                    println!("selftest: point {:?} nearest to {} lies outside its reference cell (face {:?})", p, best.1, f.tag);
                    bad += 1;
                    break;
                }
            }
            checked_points += 1;
        }
    }
    println!("refmodel selftest: {} cases, {} membership points, {} problems", cases.len(), checked_points, bad);
    if bad == 0 {
        0
    } else {
        2
    }
}
