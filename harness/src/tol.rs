//! Tolerance policy ("up to rounding"), stated once. See DESIGN.md section 4.2.
use crate::case::Case;

pub const U: f64 = 1.1102230246251565e-16; // 2^-53

/// Absolute error allowed on a position-like quantity of a well conditioned vertex: the
/// library computes in global coordinates, so the error is governed by the coordinate scale L.
pub fn eps_pos(c: &Case) -> f64 {
    16384. * U * c.scale_l()
}

/// Volume tolerance given the reference surface area and volume and the conditioning of the
/// cell's vertices (kappa >= 1, capped).
pub fn tol_volume(c: &Case, surface: f64, volume: f64, kappa: f64) -> f64 {
    eps_pos(c) * kappa.min(KAPPA_CAP) * surface + 1e-11 * volume
}

/// Area tolerance given the perimeter of the reference face.
pub fn tol_area(c: &Case, perimeter: f64, area: f64, kappa: f64) -> f64 {
    eps_pos(c) * kappa.min(KAPPA_CAP) * perimeter + 1e-11 * area
}

pub const KAPPA_CAP: f64 = 1048576.; // 2^20

/// "non-negligible" face area threshold of C01/C03: 1e-9 of the box face scale.
pub fn face_threshold(c: &Case) -> f64 {
    1e-9 * c.face_scale()
}

/// Spacing of the 52-bit integer grid the library snaps the generators to for its exact
/// predicate (boundary.rs): 4 (8 with periodic boundaries) times the largest active width.
pub fn grid_spacing(c: &Case) -> f64 {
    (if c.periodic { 8. } else { 4. }) * c.max_active_width() * 2f64.powi(-52)
}

/// Angular uncertainty of the bisector between two generators at distance `s`: the library's
/// clip decisions are, by design, those of the generators snapped to the integer grid, so a
/// bisector is only defined up to a rotation of about grid_spacing / s. "Up to rounding"
/// includes this rounding of the generator positions (it only matters for pairs of
/// generators that are closer than ~1e-9 of the box).
pub fn snap_theta(c: &Case, s: f64) -> f64 {
    if s > 0. {
        // (the positions entering a bisector are themselves rounded to u L: `generator + shift`
        // is rounded once more when the neighbour is a periodic image, differently on the two
        // sides of the face)
        (8. * (grid_spacing(c) + 2. * U * c.scale_l()) / s).min(1.)
    } else {
        1.
    }
}

/// A vertex (and with it the faces it bounds) is called ill-conditioned when the normals of its
/// three planes are coplanar up to 1e-6: its location is then not determined "up to rounding"
/// (degenerate edge-in-plane ties leave such vertices at an arbitrary point of a line). Vertex
/// positions and the areas / centroids of faces of cells with such a vertex are listed as a
/// known finding (known_findings.txt, "ill-conditioned"); volumes and centroids of cells are
/// compared regardless.
pub const KAPPA_WELL: f64 = 1e6;

/// Known finding "lowdim-large-coordinates": in 1D/2D the library integrates face areas as the
/// norm of 3D cross products in a slab of unit thickness. The rounding u*L of coordinates of
/// size L enters relative to that thickness, so for L >~ 1e11 face areas (and face centroids)
/// lose all accuracy beyond (u L)^2 and for L >~ 1e16 they are meaningless, although vertices
/// and cell volumes are right. Face areas of such cases are not compared (counted instead).
pub fn lowdim_area_unreliable(c: &Case) -> bool {
    c.dim < 3 && U * c.scale_l() > 1e-6
}

/// The same known finding seen from one cell: the error of a 1D / 2D face area was measured to
/// grow as about 3e-3 (u L kappa)^2, kappa being the conditioning of the cell's worst vertex (a 2D
/// cell with a vertex of kappa 5e5: 6e-7 at L = 2^28, 1e-5 at 2^30, 6.5e-4 at 2^33, 4e-2 at 2^36,
/// although the vertices themselves are right to u L kappa). Areas of such a cell are not
/// compared once u L kappa exceeds 1e-5 (error bound 3e-13).
pub fn lowdim_area_unreliable_cell(c: &Case, kappa: f64) -> bool {
    c.dim < 3 && U * c.scale_l() * kappa.min(KAPPA_CAP) > 1e-5
}

/// Distance of two positions for the purpose of "equal up to rounding": measured in the active
/// subspace. Along the unused axes of a 1D / 2D tessellation the library works in a slab of unit
/// thickness, so rounding there is of order u (absolute), unrelated to the scale L of the active
/// coordinates (which may be 1e-18 for a tiny box); the unused components are only required to
/// be small in absolute terms.
pub fn active_distance(c: &Case, a: glam::DVec3, b: glam::DVec3) -> f64 {
    let d = c.d();
    let mut q = 0.;
    for k in 0..d {
        q += (a[k] - b[k]) * (a[k] - b[k]);
    }
    for k in d..3 {
        if (a[k] - b[k]).abs() > 1e-9 {
            return f64::INFINITY;
        }
    }
    q.sqrt()
}
