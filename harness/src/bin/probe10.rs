//! Ad-hoc: timing of the stages of a clump case
use mvv::gen;
use std::time::Instant;
fn main() {
    let args: Vec<String> = std::env::args().collect();
    let m: usize = args[1].parse().unwrap();
    let periodic = args[2] == "p";
    let t = Instant::now();
    let c = gen::clump_case(m, 8, 12345, 3, periodic, 1e-2, [0.4, 0.5, 0.6], 0, [1.; 3], 0);
    println!("generate {:?}", t.elapsed());
    let t = Instant::now();
    let v = mvv::obs::build_full(&c);
    println!("build {:?} ({} faces)", t.elapsed(), v.faces().len());
    let t = Instant::now();
    let u = mvv::refcmp::unresolvable(&c);
    println!("unresolvable {u} {:?}", t.elapsed());
    let t = Instant::now();
    let vi = mvv::obs::integrator(&c, None);
    println!("integrator {:?}", t.elapsed());
    let t = Instant::now();
    let infos = mvv::cellinfo::cell_infos(&c, &vi);
    println!("cell_infos {:?} {}", t.elapsed(), infos.len());
}
