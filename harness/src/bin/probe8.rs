//! Ad-hoc: cell infos (kappa, s_min, r, pos, well) of a case
use mvv::case::Case;
fn main() {
    let args: Vec<String> = std::env::args().collect();
    let c = Case::load(&args[1]).unwrap();
    let vi = mvv::obs::integrator(&c, None);
    for (i, x) in mvv::cellinfo::cell_infos(&c, &vi).into_iter().enumerate() {
        let x = x.unwrap();
        println!("{i}: kappa {:e} s_min {:e} r {:e} pos {:e} well {}", x.kappa, x.s_min, x.r, x.pos, x.well);
    }
    println!("unresolvable {}", mvv::refcmp::unresolvable(&c));
}
