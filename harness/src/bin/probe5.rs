//! Ad-hoc: bounding spheres of one C20 case.
use meshless_voronoi::verif_hooks as hooks;
use mvv::case::Case;
fn main() {
    let args: Vec<String> = std::env::args().collect();
    let c = Case::load(&args[1]).unwrap();
    let pts = c.gens_v();
    println!("n {} anchor {:?} width {:?} fam {}", pts.len(), c.anchor, c.width, c.family);
    for p in pts.iter().take(12) {
        println!("  {:?}", p);
    }
    let m = pts.len().min(60);
    let w = hooks::welzl(&pts[..m]);
    println!("welzl({m}) c {:?} r {:e}", w.center, w.radius);
    let e = hooks::epos6(&pts);
    println!("epos6 c {:?} r {:e}", e.center, e.radius);
    let ns = (c.aux_f.len() - 1).min(pts.len());
    let scale = pts.iter().map(|p| p.abs().max_element()).fold(0., f64::max).max(c.width_v().max_element());
    let spheres: Vec<meshless_voronoi::geometry::Sphere> = (0..ns).map(|i| meshless_voronoi::geometry::Sphere::new(pts[i], c.aux_f[1 + i].max(1e-9 * scale))).collect();
    for s in &spheres { println!("  sphere c {:?} r {:e}", s.center, s.radius); }
    let b = hooks::epos6_spheres(&spheres);
    println!("epos6_spheres c {:?} r {:e}", b.center, b.radius);
}
#[allow(dead_code)]
fn unused() {}
