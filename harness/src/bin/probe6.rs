//! Ad-hoc: reference cells of a case, total volume, per cell volume (normal and reverse order)
use mvv::case::Case;
use mvv::refmodel::{ref_cell, RefOpts};
fn main() {
    let args: Vec<String> = std::env::args().collect();
    let c = Case::load(&args[1]).unwrap();
    let mut tot = 0.;
    for i in 0..c.n() {
        let a = ref_cell(&c, i, &RefOpts::default());
        let b = ref_cell(&c, i, &RefOpts { reverse: true, ..RefOpts::default() });
        tot += a.volume;
        println!("cell {i}: vol {:e} rev {:e} faces {} cuts {} / {}", a.volume, b.volume, a.faces.len(), a.cuts, b.cuts);
        for f in &a.faces { println!("    {:?} area {:e} n {:?}", f.tag, f.area, f.normal); }
    }
    println!("total {:e} box {:e}", tot, c.box_measure());
}
