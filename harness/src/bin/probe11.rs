//! Ad-hoc: faces of one cell of a case and of its image under the transform in aux_i
use mvv::case::Case;
fn main() {
    let args: Vec<String> = std::env::args().collect();
    let c = Case::load(&args[1]).unwrap();
    let i: usize = args[2].parse().unwrap();
    let t = mvv::meta::Transform::from_codes(&c, c.aux_i[1] as u64, c.aux_i[2] as u32, c.aux_i[3] as u32, c.aux_i[4] as i32);
    let tc = t.apply(&c);
    for (name, cc, idx) in [("original", &c, i), ("transformed", &tc, t.perm[i])] {
        let vi = mvv::obs::integrator(cc, None);
        let views = mvv::obs::cell_views(&vi, cc.n());
        let infos = mvv::cellinfo::cell_infos(cc, &vi);
        let v = &views[idx];
        let info = infos[idx].clone().unwrap();
        println!("{name}: cell {idx} loc {:?} volume {:e} kappa {:e} s_min {:e} r {:e} pos {:e}", v.loc, v.volume, info.kappa, info.s_min, info.r, info.pos);
        for f in &v.faces {
            println!("   right {:?} shift {:?} area {:e} centroid {:?}", f.right, f.shift, f.area, f.centroid);
        }
        for (k, vx) in v.vertices.iter().enumerate() { println!("   v{k} {:?} kappa {:e}", vx, v.kappa[k]); }
    }
}
