//! Ad-hoc: Welzl on the points of a case, as given and with every coordinate perturbed by 1e-9 relative
use meshless_voronoi::verif_hooks as hooks;
use mvv::case::Case;
fn main() {
    let args: Vec<String> = std::env::args().collect();
    let c = Case::load(&args[1]).unwrap();
    let pts = c.gens_v();
    let w = hooks::welzl(&pts);
    println!("as given: centre {:?} radius {:e}", w.center, w.radius);
    let mut x = 88172645463325252u64;
    let q: Vec<_> = pts.iter().map(|p| { let mut p = *p; for k in 0..3 { x ^= x << 13; x ^= x >> 7; x ^= x << 17; p[k] *= 1. + 1e-9 * ((x >> 11) as f64 / (1u64 << 53) as f64 - 0.5); } p }).collect();
    let w = hooks::welzl(&q);
    println!("perturbed: centre {:?} radius {:e}", w.center, w.radius);
    for m in 3..=pts.len() { let w = hooks::welzl(&pts[..m]); println!("first {m}: radius {:e}", w.radius); }
}
