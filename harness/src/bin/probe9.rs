//! Ad-hoc: closure / divergence of every cell's OWN faces (non-symmetric integrals), split by
//! conditioning: how closed are ill-conditioned cells on the current tree?
use meshless_voronoi::integrals::VolumeCentroidIntegral;
use mvv::gen::{self, GenOpts};
use mvv::obs::PlaneFace;
fn main() {
    let args: Vec<String> = std::env::args().collect();
    let n: usize = args[1].parse().unwrap();
    let seed: u64 = args[2].parse().unwrap();
    let strat = gen::case_strategy(GenOpts { max_n: 60, fams: gen::DEGENERATE_FAMS.to_vec(), max_offset_log2: 20, ..GenOpts::default() });
    let cases = mvv::runner::sample_strategy(&strat, seed, n);
    let mut worst = [(0f64, String::new()), (0f64, String::new())];
    let mut hist = [[0u64; 12]; 2]; let mut worstdiv = [0f64; 2];
    let mut cells = [0u64; 2];
    for c in &cases {
        if !gen::is_valid(c) { continue; }
        let r = std::panic::catch_unwind(|| {
            let vi = mvv::obs::integrator(c, None);
            let infos = mvv::cellinfo::cell_infos(c, &vi);
            let mut out = vec![];
            for i in 0..c.n() {
                let cell = vi.get_cell_at(i).unwrap();
                let info = infos[i].clone().unwrap();
                let fs = cell.compute_face_integrals::<(), PlaneFace>(());
                let vc = cell.compute_cell_integral::<(), VolumeCentroidIntegral>(());
                let mut sum = glam::DVec3::ZERO; let mut s = 0.; let mut div = 0.;
                for f in &fs {
                    let p = f.integral();
                    let nrm = -cell.clipping_planes[p.plane_idx].normal();
                    sum += p.area * nrm; s += p.area.abs();
                    if p.area > 0. { div += p.area * nrm.dot(p.centroid - cell.loc); }
                }
                let d = c.d() as f64;
                let surf = mvv::cellinfo::ball_surface(c.d(), info.r); let tolc = (info.pos * surf / info.r.max(1e-300) * 2. + 1e-11 * surf).max(info.pos * (2. * std::f64::consts::PI * info.r + 2.) * fs.len() as f64); let tolv = info.pos * surf * 16. + 1e-11 * vc.volume.abs();
                out.push((info.well, sum.length() / tolc.max(1e-300), (div / d - vc.volume).abs() / tolv.max(1e-300), info.kappa));
            }
            out
        });
        if let Ok(out) = r {
            for (well, cl, dv, _k) in out {
                let w = if well { 0 } else { 1 };
                cells[w] += 1;
                let b = if cl <= 0. { 0 } else { ((cl.log10() + 17.).max(0.) as usize).min(11) };
                hist[w][b] += 1;
                if dv > worstdiv[w] { worstdiv[w] = dv; }
                if cl > worst[w].0 { worst[w] = (cl, format!("{} div {:e}", serde_json::to_string(&c.to_json()).unwrap(), dv)); }
            }
        }
    }
    for w in 0..2 {
        println!("{}: {} cells; closure/S histogram by decade from 1e-17: {:?}; worst closure/tol {:e} worst divergence/tol {:e}", if w == 0 { "well" } else { "ill" }, cells[w], hist[w], worst[w].0, worstdiv[w]);
    }
    std::fs::write("/tmp/w/worst_ill.json", &worst[1].1).ok();
}
