use mvv::case::Case;
use mvv::obs;
fn main() {
    let args: Vec<String> = std::env::args().collect();
    let c = Case::load(&args[1]).unwrap();
    let i: usize = args[2].parse().unwrap();
    let v = obs::observe(&obs::build(&c));
    let g = c.eff_gens()[i];
    println!("cell {i} g {:?} V {:e}", g, v.cells[i].volume);
    let mut div = 0.;
    for &k in &v.cells[i].face_indices {
        let f = &v.faces[k];
        let sgn = if f.left == i { 1. } else { -1. };
        let n = obs::v3(f.normal) * sgn;
        let t = f.area * n.dot(obs::v3(f.centroid) - obs::v3(g));
        div += t;
        println!("  face {k}: left {} right {:?} shift {:?} area {:e} centroid {:?} n_out {:?} -> A n.(c-g) = {:e}", f.left, f.right, f.shift, f.area, f.centroid, n, t);
    }
    println!("div/d = {:e}", div / c.d() as f64);
}
