//! Ad-hoc: rebuild one cell clip by clip and report where the float filter contradicts the
//! exact predicate.
use glam::DVec3;
use meshless_voronoi::verif_hooks as hooks;
use meshless_voronoi::HalfSpace;
use mvv::case::Case;
fn main() {
    let args: Vec<String> = std::env::args().collect();
    let c = Case::load(&args[1]).unwrap();
    let i: usize = args[2].parse().unwrap();
    let (a, w) = (DVec3::from_array(c.eff_anchor()), DVec3::from_array(c.eff_width()));
    let grid = hooks::Grid::new(a, w, c.periodic, c.dimensionality());
    let gens = hooks::make_generators(&c.gens_v(), c.dimensionality());
    let seq = hooks::nn_sequence(&c.gens_v(), i, c.dimensionality(), c.periodic, w, usize::MAX);
    let loc = gens[i].loc();
    let mut cell = hooks::cell_init(loc, i, &grid);
    for (step, (j, s)) in seq[1..].iter().enumerate() {
        let ngb = gens[*j].loc() + s.unwrap_or(DVec3::ZERO);
        let dx = loc - ngb;
        let dist = dx.length();
        if hooks::cell_safety_radius(&cell) < dist {
            println!("terminated at step {step}");
            break;
        }
        let hs = HalfSpace::new(dx / dist, 0.5 * (loc + ngb), Some(*j), *s);
        let dec = hooks::clip_decisions(&cell, &hs, &gens, &grid);
        let bad: Vec<_> = dec.iter().enumerate().filter(|(_, (f, e))| *f != 0. && *e != 0. && f != e).collect();
        let undecided = dec.iter().filter(|(f, _)| *f == 0.).count();
        let zeros = dec.iter().filter(|(_, e)| *e == 0.).count();
        println!("step {step}: clip by {j} shift {:?} dist {:e}: {} vertices, filter undecided {undecided}, exact zeros {zeros}, CONTRADICTIONS {}", s, dist, dec.len(), bad.len());
        for (k, (f, e)) in &bad {
            let v = &cell.vertices[*k];
            println!("    vertex {k} dual {:?} loc {:?}: filter {f} exact {e}; n.(v-p) = {:e}", v.dual, v.loc, hs.plane.n.dot(v.loc - hs.plane.p));
            println!("      a = {:?} iloc {:?}", loc, grid.iloc(loc));
            for &pi in &v.dual {
                let p = &cell.clipping_planes[pi];
                let r = p.right_loc(i, &gens);
                println!("      plane {pi}: right {:?} shift {:?} right_loc {:?} iloc {:?}", p.right_idx, p.shift, r, grid.iloc(r));
            }
            println!("      v = {:?} iloc {:?}", ngb, grid.iloc(ngb));
        }
        let r = std::panic::catch_unwind(std::panic::AssertUnwindSafe(|| hooks::cell_clip(&mut cell, hs.clone(), &gens, &grid)));
        if r.is_err() {
            println!("PANIC in this clip; removed-by-decision: {:?}", dec.iter().map(|(f, e)| if *f == 0. { *e } else { *f }).collect::<Vec<_>>());
            for (k, v) in cell.vertices.iter().enumerate() {
                println!("    v{k} dual {:?}", v.dual);
            }
            break;
        }
    }
}
