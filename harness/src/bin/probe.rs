//! Ad-hoc: one with-faces cell: faces, polygons, areas.
use meshless_voronoi::integrals::AreaIntegral;
use mvv::case::Case;
use mvv::obs;
fn main() {
    let args: Vec<String> = std::env::args().collect();
    let c = Case::load(&args[1]).unwrap();
    let i: usize = args[2].parse().unwrap();
    println!("dim {} periodic {} anchor {:?} width {:?} n {} fam {}", c.dim, c.periodic, c.anchor, c.width, c.n(), c.family);
    let vi = obs::integrator(&c, c.mask.as_deref());
    let plain = vi.get_cell_at(i).unwrap().clone();
    let kap = obs::vertex_kappa(&plain);
    let cell = plain.clone().with_faces();
    let ints = cell.compute_face_integrals::<(), AreaIntegral>(());
    let pints = plain.compute_face_integrals::<(), AreaIntegral>(());
    println!("gen {:?}; {} vertices, kappa max {:e}", cell.loc, cell.vertices.len(), kap.iter().cloned().fold(1., f64::max));
    for f in 0..cell.face_count() {
        let vs = cell.face_vertices(f);
        let pl = cell.clipping_plane(f);
        println!("face {f}: neighbour {:?} shift {:?} n {:?}; area(with faces) {:e} area(plain) {:e}", cell.neighbour(f), cell.shift(f), pl.n, ints[f].integral().area, pints.get(f).map_or(f64::NAN, |x| x.integral().area));
        for &v in vs {
            let vx = &cell.vertices[v];
            println!("    v{v} dual {:?} kappa {:e} loc {:?} off-plane {:e}", vx.dual, kap[v], vx.loc, pl.n.dot(vx.loc - pl.p));
        }
    }
}
