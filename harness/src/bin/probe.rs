use glam::DVec3;
use meshless_voronoi::{Voronoi, Dimensionality};
fn main(){
    let g = vec![
        DVec3::new(0.001,0.001,0.009), DVec3::new(0.001,0.601,0.601), DVec3::new(0.009,0.001,0.001),
        DVec3::new(0.356,0.601,0.601), DVec3::new(0.601,0.601,0.001), DVec3::new(0.601,0.601,0.601)];
    let v = Voronoi::build(&g, DVec3::ZERO, DVec3::ONE, Dimensionality::ThreeD, true);
    let tot: f64 = v.cells().iter().map(|c| c.volume()).sum();
    println!("total {}", tot);
}
