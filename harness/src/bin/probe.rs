//! Ad-hoc inspection of one case file: library routes vs reference.
use mvv::case::Case;
use mvv::obs;
use mvv::refmodel::{ref_cell, RefOpts};
use meshless_voronoi::integrals::VolumeIntegral;
fn main() {
    let args: Vec<String> = std::env::args().collect();
    let c = Case::load(&args[1]).unwrap();
    println!("dim {} periodic {} anchor {:?} width {:?} n {}", c.dim, c.periodic, c.anchor, c.width, c.n());
    let v = obs::build_full(&c);
    let vi = obs::integrator(&c, None);
    let a = vi.compute_cell_integrals::<VolumeIntegral>();
    let b = if c.dim == 3 { Some(vi.clone().with_faces().compute_cell_integrals::<VolumeIntegral>()) } else { None };
    for i in 0..c.n() {
        let r = ref_cell(&c, i, &RefOpts::default());
        let cell = vi.get_cell_at(i).unwrap();
        let k = obs::vertex_kappa(cell).into_iter().fold(1., f64::max);
        println!(
            "cell {i} g={:?}\n   ref V={:e} S={:e} | build {:e} | integ {:e} | faces {:?} | nverts {} kappa {:e} sr {:e}",
            c.gens[i], r.volume, r.surface, v.cells()[i].volume(), a[i].volume, b.as_ref().map(|b| b[i].volume), cell.vertices.len(), k,
            v.cells()[i].safety_radius()
        );
        if args.len() > 2 {
            for vx in &cell.vertices {
                println!("      v {:?} dual {:?}", vx.loc, vx.dual);
            }
            for (pi, p) in cell.clipping_planes.iter().enumerate() {
                println!("      plane {pi} n {:?} p {:?} right {:?} shift {:?}", p.plane.n, p.plane.p, p.right_idx, p.shift);
            }
        }
    }
}
