fn main() {
    mvv::cli::main_with(&|id| mvv::props::find(id));
}
