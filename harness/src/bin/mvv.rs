fn main(){}
