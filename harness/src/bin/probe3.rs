//! Ad-hoc: build every cell of a case separately through the hooks; report panics and timing.
use glam::DVec3;
use meshless_voronoi::verif_hooks as hooks;
use mvv::case::Case;
fn main() {
    let args: Vec<String> = std::env::args().collect();
    let c = Case::load(&args[1]).unwrap();
    let (a, w) = (DVec3::from_array(c.eff_anchor()), DVec3::from_array(c.eff_width()));
    let grid = hooks::Grid::new(a, w, c.periodic, c.dimensionality());
    let gens = hooks::make_generators(&c.gens_v(), c.dimensionality());
    let mut rows = vec![];
    for i in 0..c.n() {
        hooks::reset_exact_calls();
        let t = std::time::Instant::now();
        let r = std::panic::catch_unwind(|| hooks::cell_build(i, &gens, c.periodic, w, &grid));
        let dt = t.elapsed().as_secs_f64();
        let (calls, zeros) = hooks::exact_calls();
        match r {
            Ok(cell) => rows.push((dt, i, cell.vertices.len(), cell.clipping_planes.len(), calls, zeros, hooks::cell_safety_radius(&cell))),
            Err(_) => println!("cell {i}: PANIC"),
        }
    }
    rows.sort_by(|a, b| b.0.partial_cmp(&a.0).unwrap());
    let total: f64 = rows.iter().map(|r| r.0).sum();
    println!("total {total:.2}s over {} cells", rows.len());
    for r in rows.iter().take(8) {
        println!("cell {}: {:.3}s, {} vertices, {} planes, exact calls {} (zeros {}), safety radius {:e}", r.1, r.0, r.2, r.3, r.4, r.5, r.6);
    }
}
