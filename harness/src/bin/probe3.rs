use mvv::case::Case;
use mvv::refmodel::{ref_cell, RefOpts};
fn main() {
    let args: Vec<String> = std::env::args().collect();
    let c = Case::load(&args[1]).unwrap();
    let i: usize = args[2].parse().unwrap();
    for rev in [false, true] {
        let r = ref_cell(&c, i, &RefOpts { reverse: rev, ..RefOpts::default() });
        println!("reverse={rev} V={:e} cuts={}", r.volume, r.cuts);
        for f in &r.faces {
            println!("   {:?} area {:e} perim {:e}", f.tag, f.area, f.perimeter);
        }
    }
}
