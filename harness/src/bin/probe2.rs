//! Trace the construction of one cell through the hooks: print every clip.
use mvv::case::Case;
use meshless_voronoi::verif_hooks as hooks;
use meshless_voronoi::HalfSpace;
fn main() {
    let args: Vec<String> = std::env::args().collect();
    let c = Case::load(&args[1]).unwrap();
    let only: Option<usize> = args.get(2).and_then(|s| s.parse().ok());
    let gens = hooks::make_generators(&c.gens_v(), c.dimensionality());
    let ea = glam::DVec3::from_array(c.eff_anchor());
    let ew = glam::DVec3::from_array(c.eff_width());
    let grid = hooks::Grid::new(ea, ew, c.periodic, c.dimensionality());
    for i in 0..c.n() {
        if only.map_or(false, |o| o != i) { continue; }
        println!("=== cell {i} at {:?}", gens[i].loc());
        let seq = hooks::nn_sequence(&c.gens_v(), i, c.dimensionality(), c.periodic, ew, 10000);
        let mut cell = hooks::cell_init(gens[i].loc(), i, &grid);
        for (j, shift) in seq.into_iter().skip(1) {
            let ngb = gens[j].loc() + shift.unwrap_or(glam::DVec3::ZERO);
            let dx = cell.loc - ngb;
            let dist = dx.length();
            if hooks::cell_safety_radius(&cell) < dist { println!("  stop: safety radius {} < {}", hooks::cell_safety_radius(&cell), dist); break; }
            let n = dx / dist;
            let p = 0.5 * (cell.loc + ngb);
            println!("  clip by j={j} shift={:?} ngb={:?} dist={dist:e} n={:?}", shift, ngb, n);
            let r = std::panic::catch_unwind(std::panic::AssertUnwindSafe(|| {
                hooks::cell_clip(&mut cell, HalfSpace::new(n, p, Some(j), shift), &gens, &grid);
            }));
            if r.is_err() { println!("  PANIC"); 
                for (pi, p) in cell.clipping_planes.iter().enumerate() { println!("      plane {pi} n {:?} right {:?} shift {:?}", p.plane.n, p.right_idx, p.shift); }
                for v in &cell.vertices { println!("      v {:?} dual {:?}", v.loc, v.dual); }
                break; }
            println!("     -> {} vertices, {} planes", cell.vertices.len(), cell.clipping_planes.len());
        }
    }
}
