//! Ad-hoc: cell infos (conditioning, tolerances) of a case.
use mvv::case::Case;
use mvv::cellinfo::cell_infos;
use mvv::obs;
fn main() {
    let args: Vec<String> = std::env::args().collect();
    let c = Case::load(&args[1]).unwrap();
    let vi = obs::integrator(&c, None);
    for (i, info) in cell_infos(&c, &vi).iter().enumerate() {
        let cell = vi.get_cell_at(i).unwrap();
        println!("cell {i}: {:?} nverts {} nplanes {}", info, cell.vertices.len(), cell.clipping_planes.len());
        if args.len() > 2 && args[2].parse::<usize>().ok() == Some(i) {
            for (k, v) in cell.vertices.iter().enumerate() {
                println!("   v{k} dual {:?} loc {:?} kappa {:e}", v.dual, v.loc, obs::vertex_kappa(cell)[k]);
            }
            for (k, p) in cell.clipping_planes.iter().enumerate() {
                println!("   plane {k}: right {:?} shift {:?} n {:?}", p.right_idx, p.shift, p.plane.n);
            }
        }
    }
}
