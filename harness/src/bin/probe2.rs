//! Ad-hoc: reference cell of one generator, faces and vertices.
use mvv::case::Case;
use mvv::refmodel::{ref_cell, sites_rel, RefOpts};
fn main() {
    let args: Vec<String> = std::env::args().collect();
    let c = Case::load(&args[1]).unwrap();
    let i: usize = args[2].parse().unwrap();
    let r = ref_cell(&c, i, &RefOpts::default());
    println!("V {:e} cuts {} nverts {}", r.volume, r.cuts, r.vertices.len());
    for f in &r.faces {
        println!("  face {:?} area {:e} centroid-g {:?}", f.tag, f.area, f.centroid - r.gen);
    }
    for v in &r.vertices {
        println!("  v-g {:?}", *v - r.gen);
    }
    let mut s = sites_rel(&c, i, 2);
    s.sort_by(|a, b| a.2.length().partial_cmp(&b.2.length()).unwrap());
    for x in s.iter().take(12) {
        println!("  site {} {:?} rel {:?} |{:e}|", x.0, x.1, x.2, x.2.length());
    }
}
