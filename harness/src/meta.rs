//! Metamorphic relations that follow from the definition of a Voronoi cell (C01): the
//! tessellation is invariant under relabelling of the generators and equivariant under the
//! symmetries of the problem statement - reflection of the whole scene along an axis of the box,
//! permutation of the active axes, uniform scaling by a power of two (exact in floating point).
//! No reference model is involved, so the relations reach input sizes the brute-force cell cannot.
//!
//! A transform turns a valid case into another valid case; the check builds both and compares
//! every cell through the transform: volume, centroid, and the face map keyed by (neighbour,
//! integer period shift | wall) with areas. "Up to rounding": the reflected input differs from
//! the exact mirror image by the rounding of `a + (hi - g)`, relabelling changes the order in
//! which equidistant candidates are visited, so the tolerances are the conditioning-derived ones
//! of the other reference-free checks (cellinfo), taken as the larger of the two builds.
use crate::case::Case;
use crate::cellinfo::{ball_surface, cell_infos, face_perimeter_bound, CellInfo};
use crate::obs;
use crate::runner::CaseStats;
use crate::tol;
use std::collections::BTreeMap;

#[derive(Clone, Debug)]
pub struct Transform {
    /// new index of the generator that had index i
    pub perm: Vec<usize>,
    /// new active axis a holds what was on axis axes[a] (a permutation of 0..d, identity above d)
    pub axes: [usize; 3],
    /// reflect the scene along (old) axis k about the centre of the box
    pub flip: [bool; 3],
    /// scale every active coordinate by 2^k
    pub scale_pow: i32,
}

impl Transform {
    /// A transform from four small integers (all choices are pure functions of them).
    pub fn from_codes(c: &Case, seed: u64, flip_bits: u32, axes_code: u32, scale_code: i32) -> Transform {
        let n = c.n();
        let d = c.d();
        // relabelling: identity (1/4), reversal (1/4), pseudo random shuffle (1/2)
        let mut perm: Vec<usize> = (0..n).collect();
        match seed % 4 {
            0 => {}
            1 => perm.reverse(),
            _ => {
                let mut x = seed | 1;
                for i in (1..n).rev() {
                    x ^= x << 13;
                    x ^= x >> 7;
                    x ^= x << 17;
                    let j = (x % (i as u64 + 1)) as usize;
                    perm.swap(i, j);
                }
            }
        }
        let mut flip = [false; 3];
        for k in 0..d {
            flip[k] = (flip_bits >> k) & 1 == 1;
        }
        const PERMS3: [[usize; 3]; 6] = [[0, 1, 2], [1, 0, 2], [2, 1, 0], [0, 2, 1], [1, 2, 0], [2, 0, 1]];
        let axes = match d {
            3 => PERMS3[axes_code as usize % 6],
            2 => [[0, 1, 2], [1, 0, 2]][axes_code as usize % 2],
            _ => [0, 1, 2],
        };
        // keep the scaled box inside the range the generators draw from (2^-60 .. 2^51)
        let w = c.eff_width();
        let (mut lo, mut hi) = (f64::INFINITY, 0f64);
        for k in 0..d {
            lo = lo.min(w[k]);
            hi = hi.max(w[k].max(c.anchor[k].abs()));
        }
        let kmin = (-58. - lo.log2()).ceil() as i32;
        let kmax = (49. - hi.log2()).floor() as i32;
        let scale_pow = if kmin > kmax { 0 } else { scale_code.clamp(kmin.max(-40), kmax.min(40)) };
        Transform { perm, axes, flip, scale_pow }
    }

    pub fn is_identity(&self) -> bool {
        self.perm.iter().enumerate().all(|(i, p)| i == *p) && self.axes == [0, 1, 2] && !self.flip.iter().any(|f| *f) && self.scale_pow == 0
    }

    pub fn apply(&self, c: &Case) -> Case {
        let d = c.d();
        let s = 2f64.powi(self.scale_pow);
        let mut out = c.clone();
        out.aux_f.clear();
        out.aux_i.clear();
        out.mask = None;
        let n = c.n();
        out.gens = vec![[0.; 3]; n];
        // box: active axes permuted and scaled, unused components untouched
        for a in 0..d {
            let k = self.axes[a];
            out.anchor[a] = c.anchor[k] * s;
            out.width[a] = c.width[k] * s;
        }
        for i in 0..n {
            let mut g = c.gens[i];
            for k in 0..d {
                if self.flip[k] {
                    let hi = c.anchor[k] + c.width[k];
                    g[k] = (c.anchor[k] + (hi - g[k])).max(c.anchor[k]).min(hi);
                }
            }
            let mut t = c.gens[i];
            for a in 0..d {
                t[a] = g[self.axes[a]] * s;
            }
            // (the scaled upper wall is computed by the library as anchor' + width', which is the
            // exactly scaled old one: no clamping needed for the scaling itself)
            out.gens[self.perm[i]] = t;
        }
        if let Some(m) = &c.mask {
            let mut nm = vec![false; n];
            for i in 0..n {
                nm[self.perm[i]] = m[i];
            }
            out.mask = Some(nm);
        }
        out
    }

    /// Image of an integer period shift / of a direction along the old axes.
    fn map_shift(&self, d: usize, s: [i32; 3]) -> [i32; 3] {
        let mut out = [0; 3];
        for a in 0..d {
            let k = self.axes[a];
            out[a] = if self.flip[k] { -s[k] } else { s[k] };
        }
        out
    }
    /// Image of a wall (axis, upper side?).
    fn map_wall(&self, d: usize, axis: usize, upper: bool) -> (usize, bool) {
        let a = (0..d).find(|a| self.axes[*a] == axis).unwrap_or(axis);
        (a, upper != self.flip[axis])
    }
    /// Image of a position (active components; the unused ones are left alone).
    fn map_point(&self, c: &Case, p: [f64; 3]) -> [f64; 3] {
        let d = c.d();
        let s = 2f64.powi(self.scale_pow);
        let mut g = p;
        for k in 0..d {
            if self.flip[k] {
                g[k] = c.anchor[k] + ((c.anchor[k] + c.width[k]) - g[k]);
            }
        }
        let mut t = p;
        for a in 0..d {
            t[a] = g[self.axes[a]] * s;
        }
        t
    }
}

#[derive(Clone, Copy, Debug, PartialEq, Eq, PartialOrd, Ord)]
enum Key {
    Site(usize, [i32; 3]),
    Wall(usize, bool),
}

struct Side {
    vols: Vec<f64>,
    cents: Vec<[f64; 3]>,
    faces: Vec<BTreeMap<Key, f64>>,
    infos: Vec<Option<CellInfo>>,
}

fn side(c: &Case) -> Side {
    let n = c.n();
    let d = c.d();
    let vi = obs::integrator(c, None);
    let views = obs::cell_views(&vi, n);
    let infos = cell_infos(c, &vi);
    let w = c.eff_width();
    let a = c.eff_anchor();
    let mut faces = vec![BTreeMap::new(); n];
    let _ = a;
    for cv in &views {
        // the faces as this cell integrates them, with the plane each belongs to: a wall is
        // identified by the outward normal of its plane (a face centroid in a corner of the box
        // is equally close to two walls)
        let cell = match vi.get_cell_at(cv.idx) {
            Some(c) => c,
            None => continue,
        };
        for f in cell.compute_face_integrals::<(), obs::PlaneFace>(()) {
            let p = f.integral();
            let key = match f.right() {
                Some(j) => Key::Site(j, obs::shift_ints(f.shift(), &w)),
                None => {
                    let out = -cell.clipping_planes[p.plane_idx].normal();
                    let mut axis = 0;
                    for k in 1..d {
                        if out[k].abs() > out[axis].abs() {
                            axis = k;
                        }
                    }
                    Key::Wall(axis, out[axis] > 0.)
                }
            };
            *faces[cv.idx].entry(key).or_insert(0.) += p.area;
        }
    }
    Side { vols: views.iter().map(|v| v.volume).collect(), cents: views.iter().map(|v| v.centroid).collect(), faces, infos }
}

/// Build `c` and its image under `t` and compare them through the transform.
/// Returns the number of non-wall faces compared.
pub fn compare(c: &Case, t: &Transform, cs: &mut CaseStats) -> Result<u64, String> {
    let n = c.n();
    let d = c.d();
    let tc = t.apply(c);
    if !crate::gen::is_valid(&tc) {
        return Err(format!("INFRA: the transformed case is not valid ({:?})", t));
    }
    {
        let mut probe = tc.clone();
        if crate::gen::repair_distinct(&mut probe).len() != n {
            // the rounding of the reflection merged two generators (cannot happen above the
            // minimal separation; counted, not judged)
            cs.count("meta_skipped_collision", 1);
            return Ok(0);
        }
    }
    if crate::refcmp::unresolvable(c) || crate::refcmp::unresolvable(&tc) {
        cs.label("unresolvable-arrangement");
        return Ok(0);
    }
    let a = side(c);
    let b = side(&tc);
    let s = 2f64.powi(t.scale_pow);
    let (sv, sa) = (s.powi(d as i32), s.powi(d as i32 - 1));
    let thr = tol::face_threshold(c);
    let lowdim_bad = tol::lowdim_area_unreliable(c) || tol::lowdim_area_unreliable(&tc);
    let mut compared = 0u64;
    let what = format!("relabelled {}, axes {:?}, reflected {:?}, scaled by 2^{}", !t.perm.iter().enumerate().all(|(i, p)| i == *p), t.axes, t.flip, t.scale_pow);
    for i in 0..n {
        let p = t.perm[i];
        let (ia, ib) = match (&a.infos[i], &b.infos[p]) {
            (Some(x), Some(y)) => (x, y),
            _ => return Err(format!("cell {i} / {p} missing in a full build")),
        };
        // everything measured in the units of the original case
        let pos = ia.pos.max(ib.pos / s);
        let r = ia.r.max(ib.r / s);
        let (va, vb) = (a.vols[i], b.vols[p] / sv);
        let tolv = pos * ball_surface(d, r) * 8. + 1e-10 * va.abs();
        cs.max("meta_volume_diff_over_tol", (va - vb).abs() / tolv);
        if (va - vb).abs() > tolv {
            return Err(format!("cell {i}: volume {:e}, but {:e} (in the original units) in the transformed tessellation (cell {p}; {what}) (tol {:e})", va, vb, tolv));
        }
        // centroid: compared for well conditioned cells whose split is determined
        if ia.well && ib.well && va > 0. {
            let m = t.map_point(c, a.cents[i]);
            let mut q = 0.;
            for k in 0..d {
                q += (m[k] - b.cents[p][k]) * (m[k] - b.cents[p][k]);
            }
            let dist = q.sqrt() / s;
            // a displacement of the boundary by pos moves the centroid by at most pos * surface * r / V
            let tolc = 8. * pos * (1. + ball_surface(d, r) * r / va.abs()) + 1e-10 * r;
            cs.max("meta_centroid_diff_over_tol", dist / tolc);
            if dist > tolc {
                return Err(format!("cell {i}: centroid {:?} maps to {:?}, the transformed tessellation has {:?} (cell {p}; {what}) (distance {:e} > tol {:e})", a.cents[i], m, b.cents[p], dist, tolc));
            }
        }
        if lowdim_bad || !(ia.well && ib.well) {
            continue;
        }
        if tol::lowdim_area_unreliable_cell(c, ia.kappa) || tol::lowdim_area_unreliable_cell(&tc, ib.kappa) {
            cs.count("meta_cells_faces_skipped_lowdim_large_coordinates", 1);
            cs.label("known-finding:lowdim-large-coordinates");
            continue;
        }
        // faces, both directions
        let mapped: BTreeMap<Key, f64> = a.faces[i]
            .iter()
            .map(|(k, ar)| {
                (
                    match *k {
                        Key::Site(j, sh) => Key::Site(t.perm[j], t.map_shift(d, sh)),
                        Key::Wall(ax, up) => {
                            let (x, u) = t.map_wall(d, ax, up);
                            Key::Wall(x, u)
                        }
                    },
                    *ar,
                )
            })
            .collect();
        // (keys carry indices of the transformed tessellation)
        let other_well = |k: &Key| match *k {
            Key::Site(j, _) => b.infos[j].as_ref().map_or(false, |x| x.well),
            Key::Wall(..) => true,
        };
        for (k, ar) in &mapped {
            if !other_well(k) {
                continue;
            }
            let tola = 2. * pos * face_perimeter_bound(d, r) * 8. + 1e-10 * ar.abs();
            match b.faces[p].get(k) {
                Some(br) => {
                    let br = br / sa;
                    if (br - ar).abs() > tola && ar.max(br) > thr {
                        return Err(format!("cell {i}: face {:?} has area {:e}, its image in the transformed tessellation (cell {p}) {:e} in the original units ({what}) (tol {:e})", k, ar, br, tola));
                    }
                    if matches!(k, Key::Site(..)) {
                        compared += 1;
                    }
                }
                None => {
                    if *ar > thr + tola {
                        return Err(format!("cell {i}: face {:?} (mapped key, area {:e}) has no counterpart in the transformed tessellation (cell {p}; {what})", k, ar));
                    }
                }
            }
        }
        for (k, br) in &b.faces[p] {
            if !other_well(k) {
                continue;
            }
            let br = br / sa;
            let tola = 2. * pos * face_perimeter_bound(d, r) * 8. + 1e-10 * br.abs();
            if !mapped.contains_key(k) && br > thr + tola {
                return Err(format!("cell {p} of the transformed tessellation has a face {:?} (area {:e} in the original units) that cell {i} of the original lacks ({what})", k, br));
            }
        }
    }
    cs.count("meta_faces_compared", compared);
    Ok(compared)
}
