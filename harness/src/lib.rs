//! Verification harness for meshless_voronoi (property-based testing and fuzzing).
pub mod case;
pub mod cli;
pub mod exact;
pub mod fuzzdec;
pub mod cellinfo;
pub mod gen;
pub mod known;
pub mod meta;
pub mod obs;
pub mod props;
pub mod refcmp;
pub mod refmodel;
pub mod runner;
pub mod serve;
pub mod tol;

pub fn verif_root() -> String {
    std::env::var("MVV_VERIF_ROOT").unwrap_or_else(|_| "/verif".to_string())
}
