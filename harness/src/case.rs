//! The case model shared by all properties: one tessellation input plus generic auxiliary
//! parameters. A case file is plain JSON with every f64 stored bit-exactly (16 hex digits) and a
//! human-readable decimal copy next to it.
use glam::DVec3;
use meshless_voronoi::Dimensionality;
use serde_json::{json, Value};
use std::hash::{Hash, Hasher};

#[derive(Clone, Debug, PartialEq)]
pub struct Case {
    pub dim: u8,
    pub periodic: bool,
    pub anchor: [f64; 3],
    pub width: [f64; 3],
    pub gens: Vec<[f64; 3]>,
    pub mask: Option<Vec<bool>>,
    /// property specific floats (translation vector, extra generators, plane parameters, ...)
    pub aux_f: Vec<f64>,
    /// property specific integers (query indices, permutation seeds, integer tuples, ...)
    pub aux_i: Vec<i64>,
    /// family tag(s) assigned by the generator (classification only, not part of the hash)
    pub family: String,
}

impl Default for Case {
    fn default() -> Self {
        Case {
            dim: 3,
            periodic: false,
            anchor: [0.; 3],
            width: [1.; 3],
            gens: vec![],
            mask: None,
            aux_f: vec![],
            aux_i: vec![],
            family: String::new(),
        }
    }
}

pub fn hex(x: f64) -> String {
    format!("{:016x}", x.to_bits())
}
pub fn unhex(s: &str) -> Result<f64, String> {
    u64::from_str_radix(s.trim_start_matches("0x"), 16)
        .map(f64::from_bits)
        .map_err(|e| format!("bad hex float {s}: {e}"))
}
fn hex3(v: &[f64; 3]) -> Value {
    json!([hex(v[0]), hex(v[1]), hex(v[2])])
}
fn unhex3(v: &Value) -> Result<[f64; 3], String> {
    let a = v.as_array().ok_or("expected array of 3")?;
    if a.len() != 3 {
        return Err("expected array of 3".into());
    }
    let mut r = [0.; 3];
    for i in 0..3 {
        r[i] = num(&a[i])?;
    }
    Ok(r)
}
/// Accept either a hex string or a plain JSON number.
fn num(v: &Value) -> Result<f64, String> {
    match v {
        Value::String(s) => unhex(s),
        Value::Number(n) => n.as_f64().ok_or_else(|| "bad number".to_string()),
        _ => Err("expected number".into()),
    }
}

impl Case {
    pub fn n(&self) -> usize {
        self.gens.len()
    }
    pub fn dimensionality(&self) -> Dimensionality {
        match self.dim {
            1 => Dimensionality::OneD,
            2 => Dimensionality::TwoD,
            _ => Dimensionality::ThreeD,
        }
    }
    pub fn d(&self) -> usize {
        self.dim as usize
    }
    pub fn anchor_v(&self) -> DVec3 {
        DVec3::from_array(self.anchor)
    }
    pub fn width_v(&self) -> DVec3 {
        DVec3::from_array(self.width)
    }
    pub fn gens_v(&self) -> Vec<DVec3> {
        self.gens.iter().map(|g| DVec3::from_array(*g)).collect()
    }
    /// Anchor as the library normalises it (unused axes -> [-0.5, 0.5]).
    pub fn eff_anchor(&self) -> [f64; 3] {
        let mut a = self.anchor;
        for k in self.d()..3 {
            a[k] = -0.5;
        }
        a
    }
    pub fn eff_width(&self) -> [f64; 3] {
        let mut w = self.width;
        for k in self.d()..3 {
            w[k] = 1.;
        }
        w
    }
    /// Generator positions as the library projects them (unused coordinates -> 0).
    pub fn eff_gens(&self) -> Vec<[f64; 3]> {
        self.gens
            .iter()
            .map(|g| {
                let mut g = *g;
                for k in self.d()..3 {
                    g[k] = 0.;
                }
                g
            })
            .collect()
    }
    /// The length scale that governs absolute rounding errors of the library (it computes in
    /// global coordinates): max over active axes of |anchor| + width (+ width again when the
    /// box is tripled by periodic boundaries).
    pub fn scale_l(&self) -> f64 {
        let mut l: f64 = 0.;
        let e = if self.periodic { 1. } else { 0. };
        for k in 0..self.d() {
            l = l.max((self.anchor[k] - e * self.width[k]).abs());
            l = l.max((self.anchor[k] + (1. + e) * self.width[k]).abs());
            l = l.max(self.width[k]);
        }
        l
    }
    pub fn max_active_width(&self) -> f64 {
        (0..self.d()).map(|k| self.width[k]).fold(0., f64::max)
    }
    pub fn min_active_width(&self) -> f64 {
        (0..self.d()).map(|k| self.width[k]).fold(f64::INFINITY, f64::min)
    }
    /// Measure of the box in the active subspace.
    pub fn box_measure(&self) -> f64 {
        (0..self.d()).map(|k| self.width[k]).product()
    }
    /// "box face scale" of C03: product of the two largest active widths in 3D, the largest
    /// width in 2D, 1 in 1D.
    pub fn face_scale(&self) -> f64 {
        let mut w: Vec<f64> = (0..self.d()).map(|k| self.width[k]).collect();
        w.sort_by(|a, b| b.partial_cmp(a).unwrap());
        match self.d() {
            1 => 1.,
            2 => w[0],
            _ => w[0] * w[1],
        }
    }

    /// Hash of everything that defines the case (not the family label).
    pub fn hash64(&self) -> u64 {
        let mut h = std::collections::hash_map::DefaultHasher::new();
        self.dim.hash(&mut h);
        self.periodic.hash(&mut h);
        for v in self.anchor.iter().chain(self.width.iter()) {
            v.to_bits().hash(&mut h);
        }
        for g in &self.gens {
            for v in g {
                v.to_bits().hash(&mut h);
            }
        }
        self.mask.hash(&mut h);
        for v in &self.aux_f {
            v.to_bits().hash(&mut h);
        }
        self.aux_i.hash(&mut h);
        h.finish()
    }

    pub fn to_json(&self) -> Value {
        json!({
            "dim": self.dim,
            "periodic": self.periodic,
            "anchor": hex3(&self.anchor),
            "width": hex3(&self.width),
            "gens": self.gens.iter().map(hex3).collect::<Vec<_>>(),
            "mask": self.mask,
            "aux_f": self.aux_f.iter().map(|x| hex(*x)).collect::<Vec<_>>(),
            "aux_i": self.aux_i,
            "family": self.family,
            "readable": {
                "anchor": self.anchor, "width": self.width, "gens": self.gens, "aux_f": self.aux_f,
            }
        })
    }

    /// A shorter rendering for evidence samples (decimal only, truncated generator list).
    pub fn to_sample(&self) -> Value {
        let shown: Vec<_> = self.gens.iter().take(6).collect();
        json!({
            "dim": self.dim, "periodic": self.periodic, "anchor": self.anchor, "width": self.width,
            "n": self.n(), "gens_first6": shown, "mask": self.mask.as_ref().map(|m| m.iter().take(16).collect::<Vec<_>>()),
            "aux_f_first8": self.aux_f.iter().take(8).collect::<Vec<_>>(),
            "aux_i_first8": self.aux_i.iter().take(8).collect::<Vec<_>>(),
            "family": self.family, "hash": format!("{:016x}", self.hash64()),
        })
    }

    pub fn from_json(v: &Value) -> Result<Case, String> {
        let dim = v["dim"].as_u64().ok_or("dim")? as u8;
        if !(1..=3).contains(&dim) {
            return Err("dim must be 1..3".into());
        }
        let gens = v["gens"]
            .as_array()
            .ok_or("gens")?
            .iter()
            .map(unhex3)
            .collect::<Result<Vec<_>, _>>()?;
        let mask = match &v["mask"] {
            Value::Null => None,
            Value::Array(a) => Some(a.iter().map(|b| b.as_bool().unwrap_or(false)).collect()),
            _ => return Err("mask".into()),
        };
        let aux_f = match &v["aux_f"] {
            Value::Array(a) => a.iter().map(num).collect::<Result<Vec<_>, _>>()?,
            _ => vec![],
        };
        let aux_i = match &v["aux_i"] {
            Value::Array(a) => a.iter().map(|x| x.as_i64().unwrap_or(0)).collect(),
            _ => vec![],
        };
        Ok(Case {
            dim,
            periodic: v["periodic"].as_bool().ok_or("periodic")?,
            anchor: unhex3(&v["anchor"])?,
            width: unhex3(&v["width"])?,
            gens,
            mask,
            aux_f,
            aux_i,
            family: v["family"].as_str().unwrap_or("").to_string(),
        })
    }

    pub fn load(path: &str) -> Result<Case, String> {
        let s = std::fs::read_to_string(path).map_err(|e| format!("{path}: {e}"))?;
        let v: Value = serde_json::from_str(&s).map_err(|e| format!("{path}: {e}"))?;
        // a replay file may wrap the case: {"property":..,"message":..,"case":{..}}
        if v.get("case").is_some() {
            Case::from_json(&v["case"])
        } else {
            Case::from_json(&v)
        }
    }
}
