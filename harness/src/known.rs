//! Known findings: /verif/known_findings.txt, committed, never written at run time.
//!   known: property=C05 sig="<substring of the failure message>" [pred=<name>] <free text>
//!   fixed: property=C04 <commit> <what failed>          (suppresses nothing)
use crate::runner::Failure;

pub struct Known {
    pub sig: String,
    pub pred: Option<String>,
    pub text: String,
}

impl Known {
    pub fn matches(&self, f: &Failure) -> bool {
        if !f.message.contains(&self.sig) {
            return false;
        }
        match (&self.pred, &f.case) {
            (None, _) => true,
            (Some(p), Some(c)) => crate::known::predicate(p, c),
            (Some(_), None) => false,
        }
    }
}

/// Structural predicates a known finding can be keyed on.
pub fn predicate(name: &str, c: &crate::case::Case) -> bool {
    match name {
        // The input contains an exactly degenerate or unresolvably tight sub-configuration: two
        // generators share an exactly equal active coordinate (modulo the period), or two
        // generators are closer than 1e-6 of the smallest active width.
        "degenerate-structure" => {
            let n = c.n();
            let d = c.d();
            let tight = 1e-6 * c.min_active_width();
            for k in 0..d {
                let mut xs: Vec<f64> = c
                    .gens
                    .iter()
                    .map(|g| {
                        let t = g[k] - c.anchor[k];
                        if c.periodic && t == c.width[k] {
                            0.
                        } else {
                            t
                        }
                    })
                    .collect();
                xs.sort_by(|a, b| a.partial_cmp(b).unwrap());
                if xs.windows(2).any(|w| w[0] == w[1]) {
                    return true;
                }
            }
            if n <= 2000 {
                for i in 0..n {
                    for j in 0..i {
                        if crate::gen::active_dist(c, &c.gens[i], &c.gens[j]) < tight {
                            return true;
                        }
                    }
                }
            }
            false
        }
        // C20: the support of the enclosing sphere can be (nearly) degenerate: the point set is an
        // exact lattice (family label assigned by the generator), or among the points given to
        // Welzl (the first 60) three share two coordinates exactly (collinear), four share one
        // coordinate exactly (coplanar), or two are closer than 1e-3 of the set's extent (a
        // sphere through both and any far point is ill conditioned)
        "c20-degenerate-support" => {
            if c.family.starts_with('L') {
                return true;
            }
            let pts: Vec<[f64; 3]> = c.gens.iter().take(60).cloned().collect();
            let m = pts.len();
            for a in 0..3 {
                let mut xs: Vec<u64> = pts.iter().map(|p| p[a].to_bits()).collect();
                xs.sort();
                if xs.windows(4).any(|w| w[0] == w[3]) {
                    return true;
                }
                let b = (a + 1) % 3;
                let mut xy: Vec<(u64, u64)> = pts.iter().map(|p| (p[a].to_bits(), p[b].to_bits())).collect();
                xy.sort();
                if xy.windows(3).any(|w| w[0] == w[2]) {
                    return true;
                }
            }
            let d2 = |p: &[f64; 3], q: &[f64; 3]| (0..3).map(|k| (p[k] - q[k]) * (p[k] - q[k])).sum::<f64>();
            let mut ext2: f64 = 0.;
            let mut min2 = f64::INFINITY;
            for i in 0..m {
                for j in 0..i {
                    let d = d2(&pts[i], &pts[j]);
                    ext2 = ext2.max(d);
                    min2 = min2.min(d);
                }
            }
            m >= 3 && min2 < 1e-6 * ext2
        }
        _ => false,
    }
}

/// Is this failure a library panic listed as a known finding of C05 (construction is total)?
/// Construction panics are C05's business whichever property's check runs into them.
pub fn is_known_c05_panic(c: &crate::case::Case, message: &str) -> bool {
    if !message.starts_with("panic:") {
        return false;
    }
    let f = Failure { message: message.to_string(), case: Some(c.clone()) };
    load("C05").iter().any(|k| k.matches(&f))
}

pub fn load(prop: &str) -> Vec<Known> {
    let path = format!("{}/known_findings.txt", crate::verif_root());
    let mut out = vec![];
    if let Ok(s) = std::fs::read_to_string(path) {
        for line in s.lines() {
            let line = line.trim();
            if !line.starts_with("known:") {
                continue;
            }
            let rest = line["known:".len()..].trim();
            if !rest.starts_with(&format!("property={prop} ")) {
                continue;
            }
            let rest = rest[format!("property={prop} ").len()..].trim();
            // sig="..."
            let mut sig = String::new();
            let mut tail = rest;
            if let Some(r) = rest.strip_prefix("sig=\"") {
                if let Some(end) = r.find('"') {
                    sig = r[..end].to_string();
                    tail = r[end + 1..].trim();
                }
            }
            let mut pred = None;
            if let Some(r) = tail.strip_prefix("pred=") {
                let end = r.find(' ').unwrap_or(r.len());
                pred = Some(r[..end].to_string());
                tail = r[end..].trim();
            }
            if sig.is_empty() {
                continue; // a known finding without a specific signature suppresses nothing
            }
            out.push(Known { sig, pred, text: tail.to_string() });
        }
    }
    out
}
