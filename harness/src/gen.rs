//! Generators of valid tessellation inputs. Every random choice is a proptest strategy value, so
//! failures shrink and runs are a pure function of the seed. Validity (closed box, pairwise
//! distinct modulo the period, minimal separation) is enforced by construction/repair, never by
//! rejection.
use crate::case::Case;
use proptest::collection::vec;
use proptest::prelude::*;

#[derive(Clone, Copy, Debug, PartialEq)]
pub enum Fam {
    U,  // uniform
    K,  // clusters + far points
    L0, // cell centred lattice
    L1, // lattice including the box boundary
    Lp, // lattice + perturbation
    Lb, // lattice with a basis (bcc, fcc, centred rectangular), exact or perturbed
    B,  // points on walls / corners
    S,  // co-spherical
    P,  // collinear / coplanar / layered
    D,  // dyadic rationals
    E,  // shared coordinate pools
    N,  // n = 1 or 2
}

impl Fam {
    pub fn tag(&self) -> &'static str {
        match self {
            Fam::U => "U",
            Fam::K => "K",
            Fam::L0 => "L0",
            Fam::L1 => "L1",
            Fam::Lp => "Lp",
            Fam::Lb => "Lb",
            Fam::B => "B",
            Fam::S => "S",
            Fam::P => "P",
            Fam::D => "D",
            Fam::E => "E",
            Fam::N => "N",
        }
    }
}

pub const ALL_FAMS: &[(u32, Fam)] = &[
    (4, Fam::U),
    (2, Fam::K),
    (1, Fam::L0),
    (1, Fam::L1),
    (2, Fam::Lp),
    (1, Fam::Lb),
    (2, Fam::B),
    (1, Fam::S),
    (1, Fam::P),
    (1, Fam::D),
    (2, Fam::E),
    (1, Fam::N),
];

/// Degenerate-weighted mix (C05, C11).
pub const DEGENERATE_FAMS: &[(u32, Fam)] = &[
    (1, Fam::U),
    (2, Fam::K),
    (2, Fam::L0),
    (2, Fam::L1),
    (3, Fam::Lp),
    (3, Fam::Lb),
    (3, Fam::B),
    (2, Fam::S),
    (2, Fam::P),
    (2, Fam::D),
    (3, Fam::E),
    (1, Fam::N),
];

#[derive(Clone, Copy, Debug, PartialEq)]
pub enum MaskMode {
    /// `mask = None`
    Never,
    /// mixture of None and all the mask kinds
    Mixed,
    /// always `Some(mask)`
    Always,
}

#[derive(Clone, Debug)]
pub struct GenOpts {
    pub dims: Vec<u8>,
    pub periodic: Option<bool>,
    pub max_n: usize,
    /// relative weight of large n (41..=max_n) among sizes
    pub big_n_weight: u32,
    pub fams: Vec<(u32, Fam)>,
    pub masks: MaskMode,
    /// maximal log2 of the aspect ratio between active axes
    pub max_aspect_log2: u32,
    /// maximal log2 of |anchor| / width
    pub max_offset_log2: u32,
    /// probability (percent) of garbage in the unused coordinates (1D/2D)
    pub garbage_pct: u32,
}

impl Default for GenOpts {
    fn default() -> Self {
        GenOpts {
            dims: vec![1, 2, 3],
            periodic: None,
            max_n: 40,
            big_n_weight: 0,
            fams: ALL_FAMS.to_vec(),
            masks: MaskMode::Never,
            max_aspect_log2: 14,
            max_offset_log2: 30,
            garbage_pct: 30,
        }
    }
}

const GARBAGE: &[f64] = &[
    0.0, -0.0, 1.0, -1.0, 0.5, 123.456, -7.25, 1e300, -1e300, 5e-324, 1e-300, -2.5e-310, f64::MAX, f64::MIN,
    f64::MIN_POSITIVE, 0.25, 0.75, 1e-9,
];

#[derive(Clone, Debug)]
struct Raw {
    dim: u8,
    periodic: bool,
    fam: usize,
    pts: Vec<[f64; 4]>,
    p: [u32; 6],
    box_kind: u8,
    e: i32,
    asp: [u32; 3],
    mant: [f64; 3],
    anchor_r: [f64; 3],
    off_m: u32,
    mask_kind: u8,
    garbage: [u32; 8],
}

fn idx(x: f64, len: usize) -> usize {
    (((x.max(0.).min(0.999_999_999)) * len as f64) as usize).min(len.saturating_sub(1))
}
fn clamp01(x: f64) -> f64 {
    x.max(0.).min(1.)
}
fn mixu(a: u32, b: u32) -> u32 {
    let mut x = (a as u64) << 32 | b as u64;
    x ^= x >> 33;
    x = x.wrapping_mul(0xff51_afd7_ed55_8ccd);
    x ^= x >> 33;
    x = x.wrapping_mul(0xc4ce_b9fe_1a85_ec53);
    x ^= x >> 33;
    x as u32
}

/// Integer vectors of equal norm (exactly co-spherical / co-circular directions).
const SPH: &[[[i32; 3]; 12]] = &[
    [[1, 2, 2], [2, 1, 2], [2, 2, 1], [-1, 2, 2], [2, -1, 2], [2, 2, -1], [0, 0, 3], [0, 3, 0], [3, 0, 0], [-2, -2, 1], [1, -2, -2], [0, 0, -3]],
    [[3, 4, 0], [4, 3, 0], [5, 0, 0], [0, 5, 0], [-3, 4, 0], [3, -4, 0], [-4, -3, 0], [0, -5, 0], [-5, 0, 0], [0, 3, 4], [0, 4, 3], [3, 0, 4]],
    [[2, 3, 6], [3, 6, 2], [6, 2, 3], [7, 0, 0], [0, 7, 0], [0, 0, 7], [-2, 3, 6], [6, -3, 2], [-6, 2, 3], [2, -3, -6], [3, 2, 6], [-7, 0, 0]],
];

/// Map the raw material to points in unit coordinates t in [0,1]^3.
fn unit_points(fam: Fam, raw: &[[f64; 4]], p: &[u32; 6], d: usize) -> Vec<[f64; 3]> {
    let n = raw.len();
    let r3 = |i: usize| [raw[i][0], raw[i][1], raw[i][2]];
    let lattice_k = |n: usize| -> usize {
        // largest k with k^d <= n (at least 2), or a parameter-chosen k (partial lattice)
        let mut k = 2usize;
        while (k + 1).pow(d as u32) <= n {
            k += 1;
        }
        if p[0] % 3 == 0 {
            2 + (p[0] as usize / 3) % 4
        } else {
            k
        }
    };
    let lattice_site = |i: usize, k: usize| -> [usize; 3] {
        let mut s = [0usize; 3];
        let mut r = i;
        for a in 0..d {
            s[a] = r % k;
            r /= k;
        }
        s
    };
    let mut out = Vec::with_capacity(n);
    match fam {
        Fam::U => {
            for i in 0..n {
                out.push(r3(i));
            }
        }
        Fam::N => {
            let m = 1 + (p[0] as usize % 2);
            for i in 0..n.min(m) {
                out.push(r3(i));
            }
        }
        Fam::K => {
            let ncl = (1 + p[0] as usize % 3).min(n);
            let scale = 10f64.powi(-(3 + (p[1] % 9) as i32));
            for i in 0..n {
                if i < ncl || i % 5 == 4 {
                    out.push(r3(i));
                } else {
                    let c = r3(i % ncl);
                    let r = r3(i);
                    out.push([
                        clamp01(c[0] + (r[0] - 0.5) * scale),
                        clamp01(c[1] + (r[1] - 0.5) * scale),
                        clamp01(c[2] + (r[2] - 0.5) * scale),
                    ]);
                }
            }
        }
        Fam::L0 | Fam::L1 | Fam::Lp => {
            let k = lattice_k(n);
            let m = n.min(k.pow(d as u32));
            let boundary = fam == Fam::L1 || (fam == Fam::Lp && p[2] % 2 == 0);
            let mag = if fam == Fam::Lp {
                if p[1] % 4 == 3 {
                    0.5 + 0.5 * (p[3] % 100) as f64 / 100.
                } else {
                    10f64.powi(-((p[1] % 17) as i32))
                }
            } else {
                0.
            };
            for i in 0..m {
                let s = lattice_site(i, k);
                let mut t = [0.; 3];
                for a in 0..d {
                    let base = if boundary { s[a] as f64 / (k - 1) as f64 } else { (s[a] as f64 + 0.5) / k as f64 };
                    t[a] = clamp01(base + (raw[i][a] - 0.5) * mag / k as f64);
                }
                for a in d..3 {
                    t[a] = raw[i][a];
                }
                out.push(t);
            }
        }
        Fam::Lb => {
            // lattice with a basis: body centred (2 sites per cell), face centred (3D: 4 sites,
            // 2D: the centred rectangular lattice again) - many exactly co-spherical sets whose
            // Delaunay cells are not boxes (octahedra, tetrahedra), unlike the simple lattices
            let fcc = d == 3 && p[0] % 2 == 0;
            let basis: &[[f64; 3]] = if d == 1 {
                &[[0., 0., 0.], [0.25, 0., 0.]]
            } else if fcc {
                &[[0., 0., 0.], [0.5, 0.5, 0.], [0.5, 0., 0.5], [0., 0.5, 0.5]]
            } else if d == 2 {
                &[[0., 0., 0.], [0.5, 0.5, 0.]]
            } else {
                &[[0., 0., 0.], [0.5, 0.5, 0.5]]
            };
            let nb = basis.len();
            // largest k with nb k^d <= min(n, 300), at least 1 (exact lattices with a basis send
            // every clipping decision to the exact predicate: cost per cell is high)
            let mut k = 1usize;
            while nb * (k + 1).pow(d as u32) <= n.min(300) {
                k += 1;
            }
            let m = n.min(nb * k.pow(d as u32));
            // placement of the cells: sites on the walls (corner site at t = 0), a quarter cell
            // inside, or half a cell inside (centred sites then lie on the upper walls)
            let off = [0., 0.25, 0.5][p[2] as usize % 3];
            let mag = match p[1] % 4 {
                0 | 1 => 0.,
                2 => 10f64.powi(-(6 + (p[3] % 11) as i32)),
                _ => 10f64.powi(-(1 + (p[3] % 5) as i32)),
            };
            for i in 0..m {
                let s = lattice_site(i / nb, k);
                let b = basis[i % nb];
                let mut t = [0.; 3];
                for a in 0..d {
                    t[a] = clamp01((s[a] as f64 + b[a] + off) / k as f64 + (raw[i][a] - 0.5) * mag / k as f64);
                    // (off = 0.5: the centred sites of the last cell land on t = 1)
                    if t[a] > 1. {
                        t[a] = 1.;
                    }
                }
                for a in d..3 {
                    t[a] = raw[i][a];
                }
                out.push(t);
            }
        }
        Fam::B => {
            let mut start = 0;
            if p[3] % 4 == 0 {
                for c in 0..(1usize << d).min(n) {
                    let mut t = r3(c);
                    for a in 0..d {
                        t[a] = ((c >> a) & 1) as f64;
                    }
                    out.push(t);
                }
                start = out.len();
            }
            for i in start..n {
                let mut t = r3(i);
                let mut snapped = false;
                for a in 0..d {
                    match mixu(p[2], (i * 3 + a) as u32) % 4 {
                        0 => {
                            t[a] = 0.;
                            snapped = true
                        }
                        1 => {
                            t[a] = 1.;
                            snapped = true
                        }
                        _ => {}
                    }
                }
                if !snapped {
                    t[i % d] = (p[4] % 2) as f64;
                }
                out.push(t);
            }
        }
        Fam::S => {
            let table = &SPH[p[0] as usize % SPH.len()];
            // dyadic centre and scale so that the points are exactly representable
            let q = 1u32 << (5 + p[1] % 3); // 32, 64, 128
            let reach = 8; // > max |v| component
            let cq = |x: f64| ((reach as f64 + x * (q as f64 - 2. * reach as f64)).round()) / q as f64;
            let c = [cq(raw[0][0]), cq(raw[0][1]), cq(raw[0][2])];
            if p[2] % 2 == 0 || n == 1 {
                out.push(c);
            }
            for i in 1..n {
                let v = table[idx(raw[i][0], 12)];
                let mut t = [0.; 3];
                // in lower dimensions use co-circular vectors (table 1 has z = 0 for the first 9)
                let v = if d < 3 { SPH[1][idx(raw[i][0], 9)] } else { v };
                let v = if d < 2 { [if raw[i][0] < 0.5 { 3 } else { -3 }, 0, 0] } else { v };
                let radial = if i % 4 == 3 { 1. + (raw[i][1] - 0.5) * 10f64.powi(-(9 + (p[3] % 7) as i32)) } else { 1. };
                for a in 0..3 {
                    t[a] = clamp01(c[a] + radial * v[a] as f64 / q as f64);
                }
                if i % 7 == 6 {
                    // a few generic interior / exterior points
                    t = r3(i);
                }
                out.push(t);
            }
        }
        Fam::P => {
            match p[0] % 3 {
                0 => {
                    // layered: few distinct values on the last active axis
                    let m = 1 + (p[1] % 3) as usize;
                    for i in 0..n {
                        let mut t = r3(i);
                        let a = d - 1;
                        t[a] = if m == 1 { (p[2] % 3) as f64 / 2. } else { (idx(t[a], m) as f64) / (m - 1) as f64 };
                        out.push(t);
                    }
                }
                1 => {
                    // collinear along a lattice direction through a dyadic base point
                    let dirs: [[f64; 3]; 4] = [[1., 0., 0.], [1., 1., 0.], [1., 1., 1.], [1., -1., 0.]];
                    let dir = dirs[p[1] as usize % 4];
                    for i in 0..n {
                        let s = (idx(raw[i][0], 33) as f64) / 32.;
                        let mut t = [0.; 3];
                        for a in 0..3 {
                            let base = if dir[a] < 0. { 1. } else { 0. };
                            t[a] = if a < d { clamp01(base + dir[a] * s) } else { raw[i][a] };
                        }
                        if d == 1 {
                            t[0] = s;
                        }
                        out.push(t);
                    }
                }
                _ => {
                    // coplanar oblique: x + y + z = const on a 1/16 grid (3D), a line in 2D
                    for i in 0..n {
                        let a = idx(raw[i][0], 17) as f64 / 16.;
                        let b = idx(raw[i][1], 17) as f64 / 16.;
                        let t = match d {
                            3 => [a, b, clamp01(1.5 - a - b)],
                            2 => [a, clamp01(1. - a), raw[i][2]],
                            _ => [a, raw[i][1], raw[i][2]],
                        };
                        out.push(t);
                    }
                }
            }
        }
        Fam::D => {
            let m = 1 + p[0] % 4;
            let q = (1u32 << m) as f64;
            for i in 0..n {
                let mut t = r3(i);
                for a in 0..d {
                    t[a] = (t[a] * q).round() / q;
                }
                out.push(t);
            }
        }
        Fam::E => {
            let pool = (2 + p[0] as usize % 6).min(n.max(2));
            let dyadic = p[1] % 2 == 0;
            let val = |j: usize, a: usize| -> f64 {
                let x = raw[j % n][a];
                if dyadic {
                    (x * 1000.).round() / 1000.
                } else {
                    x
                }
            };
            for i in 0..n {
                let mut t = r3(i);
                for a in 0..d {
                    t[a] = val(idx(raw[i][a], pool), a);
                }
                out.push(t);
            }
        }
    }
    out
}

fn build_case(raw: Raw, opts: &GenOpts) -> Case {
    let d = raw.dim as usize;
    let fam = opts.fams[raw.fam % opts.fams.len()].1;
    // --- the box
    let mut width = [1.; 3];
    let mut anchor = [0.; 3];
    let max_asp = opts.max_aspect_log2.max(1);
    for k in 0..3 {
        let a = (raw.asp[k] % (max_asp + 1)) as i32;
        let e = raw.e + a;
        match raw.box_kind % 5 {
            0 | 1 => {
                // nice: power-of-two widths, dyadic anchors
                width[k] = 2f64.powi(e);
                let j = (raw.anchor_r[k] * 17.) as i32 - 8;
                anchor[k] = if raw.box_kind % 5 == 0 { 0. } else { j as f64 * 0.25 * width[k] };
            }
            2 | 3 => {
                width[k] = raw.mant[k] * 2f64.powi(e);
                anchor[k] = (raw.anchor_r[k] - 0.5) * 4. * width[k];
            }
            _ => {
                width[k] = raw.mant[k] * 2f64.powi(e);
                let m = 1 + raw.off_m % opts.max_offset_log2.max(1);
                let sign = if raw.anchor_r[k] < 0.5 { -1. } else { 1. };
                anchor[k] = sign * 2f64.powi(m as i32) * width[k] * (1. + raw.anchor_r[k]);
            }
        }
    }
    // --- the points
    let mut ts = unit_points(fam, &raw.pts, &raw.p, d);
    // boxes of a tiny absolute scale (< 2^-20) send every clip decision to the exact predicate
    // (the filter's error bound has an absolute floor): cap the size so that the cost stays fixed
    if raw.e < -20 {
        ts.truncate(200);
    }
    let mut gens: Vec<[f64; 3]> = Vec::with_capacity(ts.len());
    let mut mvals: Vec<f64> = Vec::with_capacity(ts.len());
    for (i, t) in ts.iter().enumerate() {
        let mut g = [0.; 3];
        for k in 0..3 {
            let x = anchor[k] + t[k] * width[k];
            g[k] = x.max(anchor[k]).min(anchor[k] + width[k]);
        }
        gens.push(g);
        mvals.push(raw.pts[i.min(raw.pts.len() - 1)][3]);
    }
    // --- garbage in the unused coordinates
    let use_garbage = d < 3 && (raw.garbage[0] % 100) < opts.garbage_pct;
    if d < 3 {
        for k in d..3 {
            if use_garbage {
                anchor[k] = GARBAGE[mixu(raw.garbage[1], k as u32) as usize % GARBAGE.len()];
                width[k] = GARBAGE[mixu(raw.garbage[2], k as u32) as usize % GARBAGE.len()];
                for (i, g) in gens.iter_mut().enumerate() {
                    let h = mixu(raw.garbage[3], (i * 3 + k) as u32);
                    g[k] = if h % 3 == 0 { raw.pts[i % raw.pts.len()][k] * 1e3 } else { GARBAGE[h as usize % GARBAGE.len()] };
                }
            } else {
                anchor[k] = 0.;
                width[k] = 1.;
                for g in gens.iter_mut() {
                    g[k] = 0.;
                }
            }
        }
    }
    let mut case = Case {
        dim: raw.dim,
        periodic: raw.periodic,
        anchor,
        width,
        gens,
        mask: None,
        aux_f: vec![],
        aux_i: vec![],
        family: fam.tag().to_string(),
    };
    let kept = repair_distinct(&mut case);
    let mvals: Vec<f64> = kept.iter().map(|&i| mvals[i]).collect();
    // --- the mask
    let n = case.n();
    let want_mask = match opts.masks {
        MaskMode::Never => false,
        MaskMode::Always => true,
        MaskMode::Mixed => raw.mask_kind % 4 != 0,
    };
    if want_mask {
        let kind = (raw.mask_kind / 4) % 9;
        let p = raw.p[5] as usize;
        let mask: Vec<bool> = match kind {
            0 => vec![true; n],
            1 => vec![false; n],
            2 => (0..n).map(|i| i == p % n).collect(),
            3 => (0..n).map(|i| i != p % n).collect(),
            4 => (0..n).map(|i| i < p % (n + 1)).collect(),
            5 => mvals.iter().map(|m| *m < 0.1).collect(),
            6 => mvals.iter().map(|m| *m < 0.9).collect(),
            _ => mvals.iter().map(|m| *m < 0.5).collect(),
        };
        case.mask = Some(mask);
    }
    case
}

/// Minimal separation demanded between generators (after projection, modulo the period):
/// 2^-44 times the scale of the coordinates, see DESIGN.md section 3.1.
pub fn sep_min(c: &Case) -> f64 {
    2f64.powi(-44) * c.scale_l().max(c.max_active_width())
}

/// Minimum-image distance of two generators in the active subspace.
pub fn active_dist(c: &Case, a: &[f64; 3], b: &[f64; 3]) -> f64 {
    let mut s = 0.;
    for k in 0..c.d() {
        let mut dx = (a[k] - b[k]).abs();
        if c.periodic {
            dx = dx.min((c.width[k] - dx).abs());
        }
        s += dx * dx;
    }
    s.sqrt()
}

/// Drop every generator that is closer than `sep_min` to an earlier one. Returns the kept
/// indices. Quadratic for small n, grid-hashed along x for large n.
pub fn repair_distinct(c: &mut Case) -> Vec<usize> {
    let sep = sep_min(c);
    let n = c.gens.len();
    let mut kept: Vec<usize> = Vec::with_capacity(n);
    if n <= 400 {
        for i in 0..n {
            if kept.iter().all(|&j| active_dist(c, &c.gens[i], &c.gens[j]) >= sep) {
                kept.push(i);
            }
        }
    } else {
        // sort by x, compare only with neighbours within sep along x (plus the periodic wrap)
        let mut order: Vec<usize> = (0..n).collect();
        order.sort_by(|&a, &b| c.gens[a][0].partial_cmp(&c.gens[b][0]).unwrap().then(a.cmp(&b)));
        let mut drop = vec![false; n];
        for (oi, &i) in order.iter().enumerate() {
            let mut oj = oi;
            while oj > 0 {
                oj -= 1;
                let j = order[oj];
                if (c.gens[i][0] - c.gens[j][0]).abs() >= sep {
                    break;
                }
                if !drop[j] && active_dist(c, &c.gens[i], &c.gens[j]) < sep {
                    // drop the later index of the pair
                    drop[i.max(j)] = true;
                }
            }
        }
        if c.periodic {
            // points near the seam along x: quadratic among them
            let w = c.width[0];
            let near: Vec<usize> = (0..n)
                .filter(|&i| {
                    let t = c.gens[i][0] - c.anchor[0];
                    t < sep || w - t < sep
                })
                .collect();
            for (a, &i) in near.iter().enumerate() {
                for &j in &near[..a] {
                    if !drop[i] && !drop[j] && active_dist(c, &c.gens[i], &c.gens[j]) < sep {
                        drop[i.max(j)] = true;
                    }
                }
            }
        }
        kept = (0..n).filter(|&i| !drop[i]).collect();
    }
    if kept.len() != n {
        c.gens = kept.iter().map(|&i| c.gens[i]).collect();
    }
    kept
}

/// Is this a valid input in the sense of the properties' quantifier? (final assertion, counted
/// by the callers, never used as a filter)
pub fn is_valid(c: &Case) -> bool {
    if c.gens.is_empty() {
        return false;
    }
    for k in 0..c.d() {
        if !(c.width[k] > 0. && c.width[k].is_finite() && c.anchor[k].is_finite()) {
            return false;
        }
        for g in &c.gens {
            if !(g[k] >= c.anchor[k] && g[k] <= c.anchor[k] + c.width[k]) {
                return false;
            }
        }
    }
    // (unused coordinates may hold anything, C08)
    true
}

fn raw_strategy(opts: &GenOpts) -> BoxedStrategy<Raw> {
    let max_n = opts.max_n.max(1);
    let pt = || [0.0f64..1.0, 0.0f64..1.0, 0.0f64..1.0, 0.0f64..1.0];
    let mut sizes: Vec<(u32, BoxedStrategy<Vec<[f64; 4]>>)> = vec![];
    sizes.push((3, vec(pt(), 1..=max_n.min(6)).boxed()));
    if max_n > 6 {
        sizes.push((5, vec(pt(), 7..=max_n.min(40)).boxed()));
    }
    if max_n > 40 && opts.big_n_weight > 0 {
        sizes.push((opts.big_n_weight, vec(pt(), 41..=max_n).boxed()));
    }
    let pts = proptest::strategy::Union::new_weighted(sizes);
    let dims = opts.dims.clone();
    let periodic = opts.periodic;
    let nf = opts.fams.len();
    let fam_weights: Vec<(u32, BoxedStrategy<usize>)> =
        opts.fams.iter().enumerate().map(|(i, (w, _))| (*w, Just(i).boxed())).collect();
    let fam = proptest::strategy::Union::new_weighted(fam_weights);
    let e = prop_oneof![6 => Just(0i32), 2 => -3i32..=3, 2 => -20i32..=36, 1 => -60i32..=-21];
    let asp = prop_oneof![5 => Just([0u32, 0, 0]), 3 => [0u32..4, 0u32..4, 0u32..4], 2 => [0u32..15, 0u32..15, 0u32..15]];
    (
        (proptest::sample::select(dims), any::<bool>(), fam, pts, any::<[u32; 6]>()),
        (0u8..5, e, asp, [1.0f64..2.0, 1.0f64..2.0, 1.0f64..2.0], [0.0f64..1.0, 0.0f64..1.0, 0.0f64..1.0], 0u32..64),
        (any::<u8>(), any::<[u32; 8]>()),
    )
        .prop_map(move |((dim, per, fam, pts, p), (box_kind, e, asp, mant, anchor_r, off_m), (mask_kind, garbage))| Raw {
            dim,
            periodic: periodic.unwrap_or(per),
            fam: fam % nf,
            pts,
            p,
            box_kind,
            e,
            asp,
            mant,
            anchor_r,
            off_m,
            mask_kind,
            garbage,
        })
        .boxed()
}

pub fn case_strategy(opts: GenOpts) -> BoxedStrategy<Case> {
    let o2 = opts.clone();
    raw_strategy(&opts).prop_map(move |raw| build_case(raw, &o2)).boxed()
}

/// Labels every property attaches to a case (section 3.3 of DESIGN.md).
pub fn classify(c: &Case, cs: &mut crate::runner::CaseStats) {
    cs.label(format!("dim{}", c.dim));
    cs.label(if c.periodic { "periodic" } else { "reflective" });
    cs.label(format!("fam:{}", c.family));
    let n = c.n();
    cs.label(match n {
        1 => "n=1",
        2 => "n=2",
        3..=6 => "n=3..6",
        7..=40 => "n=7..40",
        41..=400 => "n=41..400",
        _ => "n>400",
    });
    let asp = c.max_active_width() / c.min_active_width();
    cs.label(if asp < 2. {
        "aspect<2"
    } else if asp < 64. {
        "aspect2..64"
    } else {
        "aspect>=64"
    });
    let off = (0..c.d()).map(|k| c.anchor[k].abs() / c.width[k]).fold(0., f64::max);
    cs.label(if off <= 2. {
        "offset<=2"
    } else if off < 1024. {
        "offset2..2^10"
    } else {
        "offset>=2^10"
    });
    let mut on_wall = 0;
    for g in &c.gens {
        if (0..c.d()).any(|k| g[k] == c.anchor[k] || g[k] == c.anchor[k] + c.width[k]) {
            on_wall += 1;
        }
    }
    if on_wall > 0 {
        cs.label("gen-on-wall");
    }
    match &c.mask {
        None => cs.label("mask:none"),
        Some(m) => {
            let t = m.iter().filter(|b| **b).count();
            cs.label(if t == 0 {
                "mask:all-false"
            } else if t == m.len() {
                "mask:all-true"
            } else {
                "mask:mixed"
            })
        }
    }
}

/// "Shell" inputs: one generator in the middle of the box surrounded by `n - 1` generators on a
/// (jittered) sphere around it, placed on a Fibonacci lattice with a generated rotation. The
/// central cell has about n - 1 faces (hundreds of clipping planes, faces and vertices per cell),
/// a regime that none of the other families reaches: their cells have 10..40 planes.
pub fn shell_strategy(max_n: usize) -> BoxedStrategy<Case> {
    (20usize..=max_n, 0.2f64..0.45, 0.0f64..1.0, prop_oneof![Just(1e-3f64), 0.0f64..1.0], any::<bool>(), 0u32..4, [1.0f64..2.0, 1.0f64..2.0, 1.0f64..2.0], -2i32..=2)
        .prop_map(|(n, radius, rot, jitter, periodic, anchor_kind, mant, e)| shell_case(n, radius, rot, jitter, periodic, anchor_kind, mant, e))
        .boxed()
}

#[allow(clippy::too_many_arguments)]
pub fn shell_case(n: usize, radius: f64, rot: f64, jitter: f64, periodic: bool, anchor_kind: u32, mant: [f64; 3], e: i32) -> Case {
    let mut c = Case { dim: 3, periodic, family: "H".into(), ..Case::default() };
    for k in 0..3 {
        c.width[k] = if anchor_kind == 0 { 1. } else { mant[k] * 2f64.powi(e) };
        c.anchor[k] = match anchor_kind {
            0 | 1 => 0.,
            2 => -0.5 * c.width[k],
            _ => 37.25 * c.width[k],
        };
    }
    let centre = [0.5, 0.5, 0.5];
    let to_box = |t: [f64; 3]| -> [f64; 3] {
        let mut g = [0.; 3];
        for k in 0..3 {
            g[k] = (c.anchor[k] + t[k].clamp(0., 1.) * c.width[k]).max(c.anchor[k]).min(c.anchor[k] + c.width[k]);
        }
        g
    };
    let mut gens = vec![to_box(centre)];
    let golden = std::f64::consts::PI * (3. - 5f64.sqrt());
    let m = n - 1;
    for i in 0..m {
        let z = 1. - 2. * (i as f64 + 0.5) / m as f64;
        let r = (1. - z * z).max(0.).sqrt();
        let phi = golden * i as f64 + 2. * std::f64::consts::PI * rot;
        // radial jitter of up to 10 % so that the shell is not exactly co-spherical
        let h = mixu(i as u32, (jitter * 1e6) as u32) as f64 / u32::MAX as f64;
        let rad = radius * (1. + 0.1 * jitter * (h - 0.5));
        gens.push(to_box([centre[0] + rad * r * phi.cos(), centre[1] + rad * r * phi.sin(), centre[2] + rad * z]));
    }
    c.gens = gens;
    repair_distinct(&mut c);
    c
}

/// Density contrast ('clump' inputs, family "C"): a few generators spread over the box and a
/// dense clump of `m` generators inside a ball that is small compared to its distance from
/// them. The big cells next to the clump walk over thousands of candidates that leave them
/// untouched before a farther genuine neighbour turns up; the cells on the surface of the clump
/// have one huge face towards the void. 2D or 3D, periodic or not.
pub fn clump_strategy(min_m: usize, max_m: usize) -> BoxedStrategy<Case> {
    (
        (min_m..=max_m, 3usize..=14, any::<u64>(), prop_oneof![Just(3u8), Just(3u8), Just(2u8)], any::<bool>()),
        (1u32..=3, [0.15f64..0.85, 0.15f64..0.85, 0.15f64..0.85], 0u32..4, [1.0f64..2.0, 1.0f64..2.0, 1.0f64..2.0], -2i32..=2),
    )
        .prop_map(|((m, far, seed, dim, periodic), (rho_exp, centre, anchor_kind, mant, e))| clump_case(m, far, seed, dim, periodic, 10f64.powi(-(rho_exp as i32)), centre, anchor_kind, mant, e))
        .boxed()
}

#[allow(clippy::too_many_arguments)]
pub fn clump_case(m: usize, far: usize, seed: u64, dim: u8, periodic: bool, rho: f64, centre: [f64; 3], anchor_kind: u32, mant: [f64; 3], e: i32) -> Case {
    let mut c = Case { dim, periodic, family: "C".into(), ..Case::default() };
    let d = dim as usize;
    for k in 0..d {
        c.width[k] = if anchor_kind == 0 { 1. } else { mant[k] * 2f64.powi(e) };
        c.anchor[k] = match anchor_kind {
            0 | 1 => 0.,
            2 => -0.5 * c.width[k],
            _ => 37.25 * c.width[k],
        };
    }
    let mut x = seed | 1;
    let mut next = || {
        x ^= x << 13;
        x ^= x >> 7;
        x ^= x << 17;
        (x >> 11) as f64 / (1u64 << 53) as f64
    };
    let to_box = |c: &Case, t: [f64; 3]| -> [f64; 3] {
        let mut g = [0.; 3];
        for k in 0..d {
            g[k] = (c.anchor[k] + t[k].clamp(0., 1.) * c.width[k]).max(c.anchor[k]).min(c.anchor[k] + c.width[k]);
        }
        g
    };
    let mut gens = vec![];
    // the far generators, kept away from the clump by at least 3 clump radii (a bounded number
    // of attempts: whatever was drawn last is taken)
    let mut tries = 0;
    while gens.len() < far {
        let t = [next(), next(), next()];
        let dist = (0..d).map(|k| (t[k] - centre[k]) * (t[k] - centre[k])).sum::<f64>().sqrt();
        tries += 1;
        if dist > 3. * rho + 0.02 || tries > 200 {
            gens.push(to_box(&c, t));
        }
    }
    // the clump: uniform in a ball (disk) of radius rho (in units of the box)
    while gens.len() < far + m {
        let u = [2. * next() - 1., 2. * next() - 1., 2. * next() - 1.];
        let r2: f64 = (0..d).map(|k| u[k] * u[k]).sum();
        if r2 <= 1. {
            gens.push(to_box(&c, [centre[0] + rho * u[0], centre[1] + rho * u[1], centre[2] + rho * u[2]]));
        }
    }
    c.gens = gens;
    repair_distinct(&mut c);
    c
}
