//! Structure-aware decoding of fuzzer bytes into a `Case` (hand-written on top of
//! `arbitrary::Unstructured`; derive macros are not available offline). Small integers choose
//! dimensionality, box shape, offsets and coordinates on coarse dyadic / decimal grids with
//! optional rounding-level perturbations, so that coverage-guided mutation explores degenerate
//! structure (ties, points on walls, co-spherical sets) rather than float noise.
use crate::case::Case;
use arbitrary::Unstructured;

const MANTISSAS: [f64; 5] = [1., 1.5, 1.25, 1.6653059193141975, 1.9999999999999998];
const GRIDS: [f64; 6] = [2., 4., 8., 16., 1000., 1048576.];

pub fn decode(data: &[u8], max_n: usize, want_mask: bool) -> Option<Case> {
    let mut u = Unstructured::new(data);
    let dim = 1 + u.int_in_range(0u8..=2).ok()?;
    let periodic: bool = u.arbitrary().ok()?;
    let d = dim as usize;
    let e = u.int_in_range(-3i32..=3).ok()?;
    let mut width = [1.; 3];
    let mut anchor = [0.; 3];
    let off_kind = u.int_in_range(0u8..=5).ok()?;
    for k in 0..3 {
        let asp = u.int_in_range(0i32..=6).ok()?;
        let m = MANTISSAS[u.int_in_range(0usize..=MANTISSAS.len() - 1).ok()?];
        width[k] = m * 2f64.powi(e + asp);
        let j = u.int_in_range(-8i32..=8).ok()? as f64;
        anchor[k] = match off_kind {
            0 | 1 => 0.,
            2 => j * 0.25 * width[k],
            3 => j.signum() * 1024. * width[k] * (1. + j.abs() / 16.),
            4 => j.signum() * 1048576. * width[k] * (1. + j.abs() / 16.),
            _ => j.signum() * 1073741824. * width[k],
        };
    }
    for k in d..3 {
        width[k] = 1.;
        anchor[k] = 0.;
    }
    let mut c = Case { dim, periodic, anchor, width, family: "fuzz".into(), ..Case::default() };
    let l = c.scale_l();
    let n = 1 + u.int_in_range(0usize..=max_n.saturating_sub(1)).ok()?;
    let q = GRIDS[u.int_in_range(0usize..=GRIDS.len() - 1).ok()?];
    for _ in 0..n {
        let mut g = [0.; 3];
        for k in 0..d {
            let idx = u.int_in_range(0u32..=q as u32).unwrap_or(0) as f64;
            let mut x = anchor[k] + idx / q * width[k];
            // optional perturbation at the level of the coordinate rounding
            let p = u.int_in_range(0u8..=15).unwrap_or(0);
            if p >= 12 {
                let j = 40 + 4 * (p as i32 - 12);
                let s = if u.arbitrary::<bool>().unwrap_or(false) { 1. } else { -1. };
                x += s * l * 2f64.powi(-j);
            }
            g[k] = x.max(anchor[k]).min(anchor[k] + width[k]);
        }
        c.gens.push(g);
    }
    crate::gen::repair_distinct(&mut c);
    if want_mask && u.arbitrary::<bool>().unwrap_or(false) {
        let bits: u32 = u.arbitrary().unwrap_or(0);
        c.mask = Some((0..c.n()).map(|i| (bits >> (i % 32)) & 1 == 1).collect());
    }
    // whatever is left feeds the property specific auxiliary values
    while c.aux_f.len() < 8 {
        c.aux_f.push(u.int_in_range(0u16..=u16::MAX).unwrap_or(0) as f64 / 65536.);
    }
    c.aux_i.push(u.arbitrary::<u32>().unwrap_or(1) as i64);
    Some(c)
}

/// 15 grid coordinates in [0, 2^52) for the predicate target: a base pattern (small grid,
/// co-spherical table or raw) plus raw bytes.
pub fn decode_tuple(data: &[u8]) -> Option<Vec<i64>> {
    const MAXC: i64 = (1i64 << 52) - 1;
    let mut u = Unstructured::new(data);
    let kind = u.int_in_range(0u8..=2).ok()?;
    let mut out = Vec::with_capacity(15);
    match kind {
        0 => {
            for _ in 0..15 {
                out.push((u.arbitrary::<u64>().ok()? & MAXC as u64) as i64);
            }
        }
        1 => {
            let off = (u.arbitrary::<u64>().ok()? & MAXC as u64) as i64;
            for _ in 0..15 {
                out.push((off.min(MAXC - 8) + u.int_in_range(0i64..=7).ok()?).clamp(0, MAXC));
            }
        }
        _ => {
            // points c + 2^k v with |v|^2 = 9, plus a +-1 nudge
            const V: [[i64; 3]; 8] = [[1, 2, 2], [2, 1, 2], [2, 2, 1], [-1, 2, 2], [0, 0, 3], [0, 3, 0], [3, 0, 0], [-2, -2, 1]];
            let k = u.int_in_range(0u32..=46).ok()?;
            let reach = 4i64 << k;
            let mut centre = [0i64; 3];
            for a in 0..3 {
                centre[a] = ((u.arbitrary::<u64>().ok()? & MAXC as u64) as i64).clamp(reach, MAXC - reach);
            }
            for _ in 0..5 {
                let v = V[u.int_in_range(0usize..=7).ok()?];
                for a in 0..3 {
                    out.push(centre[a] + (v[a] << k));
                }
            }
            let which = u.int_in_range(0usize..=15).ok()?;
            if which < 15 {
                out[which] = (out[which] + u.int_in_range(-1i64..=1).ok()?).clamp(0, MAXC);
            }
        }
    }
    Some(out)
}
