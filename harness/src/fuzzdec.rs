//! Structure-aware decoding of fuzzer bytes into a `Case` (hand-written on top of
//! `arbitrary::Unstructured`; derive macros are not available offline). Small integers choose
//! dimensionality, box shape, offsets and coordinates on coarse dyadic / decimal grids with
//! optional rounding-level perturbations, so that coverage-guided mutation explores degenerate
//! structure (ties, points on walls, co-spherical sets) rather than float noise.
use crate::case::Case;
use arbitrary::Unstructured;

const MANTISSAS: [f64; 5] = [1., 1.5, 1.25, 1.6653059193141975, 1.9999999999999998];
const GRIDS: [f64; 6] = [2., 4., 8., 16., 1000., 1048576.];

pub fn decode(data: &[u8], max_n: usize, want_mask: bool) -> Option<Case> {
    decode_opts(data, &DecOpts { max_n, want_mask, ..DecOpts::default() })
}

/// What a target wants from the shared decoder.
#[derive(Clone, Debug)]
pub struct DecOpts {
    pub max_n: usize,
    pub want_mask: bool,
    /// admissible dimensionalities (the decoded choice is mapped into this list)
    pub dims: &'static [u8],
    pub periodic: Option<bool>,
    /// number of auxiliary values in [0, 1)
    pub aux_f: usize,
    /// number of auxiliary small integers (bytes) after the first u32
    pub aux_i: usize,
    /// garbage (incl. non finite values) in the unused coordinates of 1D / 2D inputs
    pub garbage: bool,
}
impl Default for DecOpts {
    fn default() -> Self {
        DecOpts { max_n: 10, want_mask: false, dims: &[1, 2, 3], periodic: None, aux_f: 8, aux_i: 0, garbage: false }
    }
}

const GARBAGE: [f64; 12] = [0., -0., 1., 0.5, 1e300, -1e300, 5e-324, -2.2250738585072014e-308, f64::NAN, f64::INFINITY, f64::NEG_INFINITY, 0.25];

pub fn decode_opts(data: &[u8], o: &DecOpts) -> Option<Case> {
    let (max_n, want_mask) = (o.max_n, o.want_mask);
    let mut u = Unstructured::new(data);
    let dim = o.dims[u.int_in_range(0usize..=2).ok()? % o.dims.len()];
    let periodic: bool = u.arbitrary().ok()?;
    let periodic = o.periodic.unwrap_or(periodic);
    let d = dim as usize;
    let e = u.int_in_range(-3i32..=3).ok()?;
    let mut width = [1.; 3];
    let mut anchor = [0.; 3];
    let off_kind = u.int_in_range(0u8..=5).ok()?;
    for k in 0..3 {
        let asp = u.int_in_range(0i32..=6).ok()?;
        let m = MANTISSAS[u.int_in_range(0usize..=MANTISSAS.len() - 1).ok()?];
        width[k] = m * 2f64.powi(e + asp);
        let j = u.int_in_range(-8i32..=8).ok()? as f64;
        anchor[k] = match off_kind {
            0 | 1 => 0.,
            2 => j * 0.25 * width[k],
            3 => j.signum() * 1024. * width[k] * (1. + j.abs() / 16.),
            4 => j.signum() * 1048576. * width[k] * (1. + j.abs() / 16.),
            _ => j.signum() * 1073741824. * width[k],
        };
    }
    for k in d..3 {
        width[k] = 1.;
        anchor[k] = 0.;
    }
    let mut c = Case { dim, periodic, anchor, width, family: "fuzz".into(), ..Case::default() };
    let l = c.scale_l();
    let n = 1 + u.int_in_range(0usize..=max_n.saturating_sub(1)).ok()?;
    let q = GRIDS[u.int_in_range(0usize..=GRIDS.len() - 1).ok()?];
    for _ in 0..n {
        let mut g = [0.; 3];
        for k in 0..d {
            let idx = u.int_in_range(0u32..=q as u32).unwrap_or(0) as f64;
            let mut x = anchor[k] + idx / q * width[k];
            // optional perturbation at the level of the coordinate rounding
            let p = u.int_in_range(0u8..=15).unwrap_or(0);
            if p >= 12 {
                let j = 40 + 4 * (p as i32 - 12);
                let s = if u.arbitrary::<bool>().unwrap_or(false) { 1. } else { -1. };
                x += s * l * 2f64.powi(-j);
            }
            g[k] = x.max(anchor[k]).min(anchor[k] + width[k]);
        }
        c.gens.push(g);
    }
    crate::gen::repair_distinct(&mut c);
    if want_mask && u.arbitrary::<bool>().unwrap_or(false) {
        let bits: u32 = u.arbitrary().unwrap_or(0);
        c.mask = Some((0..c.n()).map(|i| (bits >> (i % 32)) & 1 == 1).collect());
    }
    if o.garbage && d < 3 {
        // after repair_distinct (which looks at the active coordinates only)
        for k in d..3 {
            c.anchor[k] = GARBAGE[u.int_in_range(0usize..=GARBAGE.len() - 1).unwrap_or(0)];
            c.width[k] = GARBAGE[u.int_in_range(0usize..=GARBAGE.len() - 1).unwrap_or(0)];
            for i in 0..c.gens.len() {
                let j = u.int_in_range(0usize..=GARBAGE.len()).unwrap_or(0);
                // the last choice: the active x coordinate of another generator
                c.gens[i][k] = if j == GARBAGE.len() { c.gens[(i + 1) % c.gens.len()][0] } else { GARBAGE[j] };
            }
        }
        if c.gens.iter().any(|g| g.iter().any(|x| !x.is_finite())) || !c.anchor.iter().chain(c.width.iter()).all(|x| x.is_finite()) {
            c.family.push_str("+nonfinite");
        }
    }
    // whatever is left feeds the property specific auxiliary values
    while c.aux_f.len() < o.aux_f {
        c.aux_f.push(u.int_in_range(0u16..=u16::MAX).unwrap_or(0) as f64 / 65536.);
    }
    c.aux_i.push(u.arbitrary::<u32>().unwrap_or(1) as i64);
    for _ in 0..o.aux_i {
        c.aux_i.push(u.arbitrary::<u8>().unwrap_or(0) as i64);
    }
    Some(c)
}

/// The decoder of every fuzz target (used by the target itself and by `mvv decode`, so that an
/// artifact is turned into exactly the case the target saw).
pub fn decode_target(target: &str, data: &[u8]) -> Option<Case> {
    let d = DecOpts::default();
    match target {
        "fz_tess" => decode(data, 10, true),
        "fz_clip" => decode(data, 12, false),
        "fz_nn" => decode(data, 40, false),
        "fz_insphere" => decode_tuple(data).map(|t| {
            let mut c = Case::default();
            c.gens = vec![[0.5; 3]];
            c.aux_i = t;
            c
        }),
        // partial construction / connectivity / routes: a mask is always present
        "fz_c07" | "fz_c12" | "fz_c13" => decode_opts(data, &DecOpts { max_n: 10, want_mask: true, ..d }).map(|mut c| {
            if c.mask.is_none() {
                let bits = c.aux_i[0] as u64;
                c.mask = Some((0..c.n()).map(|i| (bits >> (i % 32)) & 1 == 1).collect());
            }
            c
        }),
        // periodic vs replicated: translation vector in [-2, 2) widths, a quarter of them on
        // multiples of half a width
        "fz_c06" => decode_opts(data, &DecOpts { max_n: 8, periodic: Some(true), ..d }).map(|mut c| {
            let snap = c.aux_i[0] % 4 == 0;
            let t: Vec<f64> = c.aux_f[..3].iter().map(|x| if snap { (x * 8.).floor() * 0.5 - 2. } else { x * 4. - 2. }).collect();
            c.aux_f = t;
            c
        }),
        "fz_c08" => decode_opts(data, &DecOpts { max_n: 12, want_mask: true, dims: &[1, 2], garbage: true, ..d }),
        // polytope validity + operation sequences on a cell: aux_i = [pick, ops...]
        "fz_c15" => decode_opts(data, &DecOpts { max_n: 14, want_mask: true, dims: &[3], aux_i: 10, ..d }).map(|mut c| {
            for o in c.aux_i.iter_mut().skip(1) {
                *o %= 6;
            }
            c
        }),
        // metamorphic stream of C01: aux_i = [1, relabelling seed, reflection bits, axis permutation, power of two]
        "fz_c01" => decode_opts(data, &DecOpts { max_n: 12, aux_i: 4, ..d }).map(|mut c| {
            let seed = c.aux_i[0];
            let (f, a, k) = (c.aux_i[1] % 8, c.aux_i[2] % 6, c.aux_i[3] % 81 - 40);
            c.aux_i = vec![1, seed, f, a, k];
            c
        }),
        // safety radius + additions outside the ball
        "fz_c16" => decode_opts(data, &DecOpts { max_n: 14, aux_f: 84, ..d }),
        _ => None,
    }
}

type CheckFn = fn(&Case, &mut crate::runner::CaseStats) -> Result<(), String>;

/// Oracle of a fuzz target (the unchanged property check) and the property it belongs to.
pub fn target_check(target: &str) -> Option<(&'static str, CheckFn)> {
    use crate::props::*;
    Some(match target {
        "fz_tess" => ("C05", c05::check_fuzz as CheckFn),
        "fz_clip" => ("C18", c18::check),
        "fz_nn" => ("C17", c17::check),
        "fz_c01" => ("C01", c01::check),
        "fz_c06" => ("C06", c06::check),
        "fz_c07" => ("C07", c07::check),
        "fz_c08" => ("C08", c08::check),
        "fz_c12" => ("C12", c12::check),
        "fz_c13" => ("C13", c13::check),
        "fz_c15" => ("C15", c15::check),
        "fz_c16" => ("C16", c16::check),
        _ => return None,
    })
}

/// Body of the generic fuzz targets: decode, run the property's oracle, panic on a violation
/// (libFuzzer records the input as a crash artifact; it is re-checked by the plain replay path
/// before anything is reported).
pub fn run_target(target: &str, data: &[u8]) {
    let Some((id, check)) = target_check(target) else { return };
    if let Some(c) = decode_target(target, data) {
        if !crate::gen::is_valid(&c) {
            return;
        }
        let mut cs = crate::runner::CaseStats::default();
        if let Err(m) = check(&c, &mut cs) {
            if !m.starts_with("INFRA:") {
                panic!("VIOLATION-{id} {m}");
            }
        }
    }
}

/// 15 grid coordinates in [0, 2^52) for the predicate target: a base pattern (small grid,
/// co-spherical table or raw) plus raw bytes.
pub fn decode_tuple(data: &[u8]) -> Option<Vec<i64>> {
    const MAXC: i64 = (1i64 << 52) - 1;
    let mut u = Unstructured::new(data);
    let kind = u.int_in_range(0u8..=2).ok()?;
    let mut out = Vec::with_capacity(15);
    match kind {
        0 => {
            for _ in 0..15 {
                out.push((u.arbitrary::<u64>().ok()? & MAXC as u64) as i64);
            }
        }
        1 => {
            let off = (u.arbitrary::<u64>().ok()? & MAXC as u64) as i64;
            for _ in 0..15 {
                out.push((off.min(MAXC - 8) + u.int_in_range(0i64..=7).ok()?).clamp(0, MAXC));
            }
        }
        _ => {
            // points c + 2^k v with |v|^2 = 9, plus a +-1 nudge
            const V: [[i64; 3]; 8] = [[1, 2, 2], [2, 1, 2], [2, 2, 1], [-1, 2, 2], [0, 0, 3], [0, 3, 0], [3, 0, 0], [-2, -2, 1]];
            let k = u.int_in_range(0u32..=46).ok()?;
            let reach = 4i64 << k;
            let mut centre = [0i64; 3];
            for a in 0..3 {
                centre[a] = ((u.arbitrary::<u64>().ok()? & MAXC as u64) as i64).clamp(reach, MAXC - reach);
            }
            for _ in 0..5 {
                let v = V[u.int_in_range(0usize..=7).ok()?];
                for a in 0..3 {
                    out.push(centre[a] + (v[a] << k));
                }
            }
            let which = u.int_in_range(0usize..=15).ok()?;
            if which < 15 {
                out[which] = (out[which] + u.int_in_range(-1i64..=1).ok()?).clamp(0, MAXC);
            }
        }
    }
    Some(out)
}
