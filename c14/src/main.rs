//! C14 — custom integrals receive an exact signed decomposition of the cell.
//!
//! The integral traits are implemented in a genuinely downstream crate (`/verif/downstream`,
//! public un-hooked API only). Its recorders store every tetrahedron / base triangle they are
//! fed; this check evaluates the polynomial basis 1, x_i, x_i x_j on them and compares with the
//! moments of the brute-force reference cell, checks the face triangles against the face plane,
//! the reference face area and centroid, and the delivery of per-cell data under masks.
use glam::DVec3;
use meshless_voronoi::{ConvexCell, ConvexCellMarker, VoronoiIntegrator};
use mv_downstream::{Payload, TetRecorder, TetRecorderData, TriRecorder, TriRecorderData};
use mvv::case::Case;
use mvv::gen::{self, GenOpts, MaskMode};
use mvv::obs;
use mvv::refcmp::{face_key, ref_bundle, unresolvable, RefBundle, VAR_FACTOR};
use mvv::runner::{CaseStats, PropDef, Tier};
use mvv::tol;
use proptest::strategy::BoxedStrategy;
use std::collections::BTreeMap;

fn strategy(_tier: Tier) -> BoxedStrategy<Case> {
    gen::case_strategy(GenOpts { max_n: 24, masks: MaskMode::Mixed, max_offset_log2: 16, ..GenOpts::default() })
}

/// Signed volume by the documented rule: positive iff (v0, v1, v2) is counter-clockwise as seen
/// from the apex, i.e. the normal (v1 - v0) x (v2 - v0) points towards the apex.
fn signed_volume(t: &[DVec3; 4]) -> f64 {
    (t[1] - t[0]).cross(t[2] - t[0]).dot(t[3] - t[0]) / 6.
}

/// Signed moments [1, x, y, z, xx, yy, zz, xy, xz, yz] of one tetrahedron about `g`.
fn tet_moments(t: &[DVec3; 4], g: DVec3) -> [f64; 10] {
    let v = signed_volume(t);
    let p = [t[0] - g, t[1] - g, t[2] - g, t[3] - g];
    let s = p[0] + p[1] + p[2] + p[3];
    let mut m = [0.; 10];
    m[0] = v;
    for k in 0..3 {
        m[1 + k] = v * s[k] / 4.;
    }
    let pairs = [(0, 0), (1, 1), (2, 2), (0, 1), (0, 2), (1, 2)];
    for (q, (i, j)) in pairs.iter().enumerate() {
        let mut acc = s[*i] * s[*j];
        for pk in &p {
            acc += pk[*i] * pk[*j];
        }
        m[4 + q] = v / 20. * acc;
    }
    m
}

struct Tols {
    vol: f64,
    r: f64,
    eps: f64,
    well: bool,
}

fn tolerances<M: ConvexCellMarker>(c: &Case, cell: &ConvexCell<M>, b: &RefBundle) -> Tols {
    let kmax = obs::vertex_kappa(cell).into_iter().fold(1., f64::max);
    let eps = tol::eps_pos(c) * kmax.min(tol::KAPPA_WELL);
    let four_pi = 4. * std::f64::consts::PI;
    let r_lib = cell.vertices.iter().map(|v| v.loc.distance(cell.loc)).fold(0., f64::max);
    let r = b.r3.max(r_lib);
    // close pairs (this generator and a neighbour, or two neighbours): the bisector between them
    // is only defined up to a rotation by the snapping / rounding of their positions, which
    // changes the first and second moments at first order (the volume only at second order, so
    // the measured sensitivity of the volume does not cover it)
    let rights: Vec<DVec3> = cell.clipping_planes.iter().filter(|p| p.right_idx.is_some()).map(|p| 2. * p.plane.p - cell.loc).collect();
    let mut s_min = rights.iter().map(|x| x.distance(cell.loc)).fold(f64::INFINITY, f64::min);
    for (a, ra) in rights.iter().enumerate() {
        for rb in &rights[..a] {
            let dd = ra.distance(*rb);
            if dd > 0. {
                s_min = s_min.min(dd);
            }
        }
    }
    let pair_slack = if s_min.is_finite() { tol::snap_theta(c, s_min) * r * mvv::cellinfo::ball_surface(c.d(), r) } else { 0. };
    Tols { vol: VAR_FACTOR * b.var_volume + eps * four_pi * r * r + 1e-11 * b.base.volume + pair_slack, r, eps, well: kmax <= tol::KAPPA_WELL }
}

/// Clause "exact signed decomposition": moments of the recorded tetrahedra vs the reference.
fn check_cell_decomposition<M: ConvexCellMarker + 'static>(c: &Case, cell: &ConvexCell<M>, rec: &TetRecorder, b: &RefBundle, route: &str, cs: &mut CaseStats) -> Result<bool, String> {
    let i = cell.idx;
    if rec.cell_idx != i || !rec.finalized {
        return Err(format!("{route}: the recorder of cell {i} was initialised for cell {} / finalize() {}called", rec.cell_idx, if rec.finalized { "" } else { "not " }));
    }
    if rec.tets.is_empty() {
        return Err(format!("{route}: cell {i} fed no tetrahedron to the cell integral"));
    }
    let g = cell.loc;
    let mut m = [0.; 10];
    let mut neg = 0usize;
    let mut abs_vol = 0.;
    for t in &rec.tets {
        if t[3].to_array().map(f64::to_bits) != g.to_array().map(f64::to_bits) {
            return Err(format!("{route}: cell {i}: a tetrahedron was fed with apex {:?}, the generator is {:?}", t[3], g));
        }
        if !(t[0].is_finite() && t[1].is_finite() && t[2].is_finite()) {
            return Err(format!("{route}: cell {i}: a tetrahedron with a non-finite vertex"));
        }
        let tm = tet_moments(t, g);
        if tm[0] < 0. {
            neg += 1;
        }
        abs_vol += tm[0].abs();
        for k in 0..10 {
            m[k] += tm[k];
        }
    }
    let t = tolerances(c, cell, b);
    if !t.well && route == "with stored faces" {
        // known finding "ill-conditioned" (C01): the vertices of a cell with nearly dependent
        // planes are placed anywhere along the degenerate edge; the face fans of the with-faces
        // decomposition are built from those vertex positions, so its integrals are off by the
        // area of the gaps between the (nearly coplanar) sliver faces. The decomposition without
        // stored faces does not use them and is compared regardless.
        cs.count("known_ill_conditioned_with_faces_cells_not_compared", 1);
        cs.label("known-finding:ill-conditioned");
        return Ok(neg > 0);
    }
    // cancellation between positive and negative tetrahedra costs accuracy in proportion to the
    // total unsigned volume
    let base = t.vol + 64. * tol::U * abs_vol + t.eps * abs_vol / t.r.max(f64::MIN_POSITIVE) * 1e-3;
    let names = ["1", "x", "y", "z", "xx", "yy", "zz", "xy", "xz", "yz"];
    for k in 0..10 {
        let deg = if k == 0 { 0 } else if k < 4 { 1 } else { 2 };
        let tolk = 4. * base * t.r.powi(deg);
        let diff = (m[k] - b.base.moments[k]).abs();
        cs.max("moment_diff_over_tol", diff / tolk);
        if diff > tolk {
            return Err(format!(
                "{route}: cell {i}: the signed sum over the {} tetrahedra fed to a cell integral of the integrand {} is {:e}, the integral over the (brute-force) cell is {:e} (diff {:e} > tol {:e}; {} negatively oriented tetrahedra)",
                rec.tets.len(),
                names[k],
                m[k],
                b.base.moments[k],
                diff,
                tolk,
                neg
            ));
        }
    }
    cs.count("cells_moments_compared", 1);
    cs.count("tetrahedra", rec.tets.len() as u64);
    cs.count("negative_tetrahedra", neg as u64);
    let _ = t.well;
    Ok(neg > 0)
}

/// Clause "base triangles lie in the face plane, signed areas sum to the face area".
fn check_face_decomposition<M: ConvexCellMarker + 'static>(c: &Case, cell: &ConvexCell<M>, recs: &[&TriRecorder], b: &RefBundle, route: &str, cs: &mut CaseStats) -> Result<(), String> {
    let i = cell.idx;
    let t = tolerances(c, cell, b);
    let thr = tol::face_threshold(c);
    let refs: BTreeMap<_, _> = b.base.faces.iter().map(|f| (f.tag, f)).collect();
    let mut seen = std::collections::BTreeSet::new();
    for rec in recs {
        if rec.cell_idx != i || !rec.finalized {
            return Err(format!("{route}: a face recorder of cell {i} was initialised for cell {} / not finalised", rec.cell_idx));
        }
        if rec.plane_idx >= cell.clipping_planes.len() {
            return Err(format!("{route}: cell {i}: face integral initialised with plane index {} of {}", rec.plane_idx, cell.clipping_planes.len()));
        }
        if !seen.insert(rec.plane_idx) {
            return Err(format!("{route}: cell {i}: two face integrals for the same clipping plane {}", rec.plane_idx));
        }
        let hs = &cell.clipping_planes[rec.plane_idx];
        if !c.dimensionality().vector_is_valid(hs.normal()) {
            return Err(format!("{route}: cell {i}: a face integral was created for a plane orthogonal to the active subspace"));
        }
        let n = hs.plane.n;
        let mut area = 0.;
        let mut first = DVec3::ZERO;
        for tri in &rec.tris {
            for q in 0..3 {
                let off = n.dot(tri[q] - hs.plane.p).abs();
                let tolp = if t.well { 64. * t.eps + 1e-11 * t.r } else { f64::INFINITY };
                if off > tolp {
                    return Err(format!("{route}: cell {i}, face towards {:?}: a base triangle vertex {:?} is {:e} off the face plane (tol {:e})", hs.right_idx, tri[q], off, tolp));
                }
            }
            let nt = 0.5 * (tri[1] - tri[0]).cross(tri[2] - tri[0]);
            let s = nt.dot(tri[3] - tri[0]);
            let a = if s > 0. { nt.length() } else if s < 0. { -nt.length() } else { 0. };
            area += a;
            first += a * (tri[0] + tri[1] + tri[2]) / 3.;
        }
        let key = face_key(c, hs.right_idx, hs.shift, rec.plane_idx);
        if !t.well || tol::lowdim_area_unreliable(c) {
            cs.count("faces_skipped_ill_conditioned_or_lowdim", 1);
            continue;
        }
        let s_min = mvv::refmodel::sites_rel(c, i, 1).iter().map(|x| x.2.length()).fold(f64::INFINITY, f64::min);
        let slack = if s_min.is_finite() { tol::snap_theta(c, s_min) * t.r * 2. * std::f64::consts::PI * t.r } else { 0. };
        match refs.get(&key) {
            Some(rf) => {
                let fv = &b.faces[&rf.tag];
                let tola = VAR_FACTOR * fv.area + t.eps * (rf.perimeter + 2. * std::f64::consts::PI * t.eps) + 1e-11 * rf.area + slack;
                if area.max(rf.area) <= thr {
                    continue;
                }
                if (area - rf.area).abs() > tola {
                    return Err(format!("{route}: cell {i}, face {:?}: the signed areas of the {} base triangles sum to {:e}, the face of the brute-force cell has area {:e} (tol {:e})", key, rec.tris.len(), area, rf.area, tola));
                }
                if rf.area > thr && tola < 0.125 * rf.area && fv.centroid.is_finite() && area > 0. {
                    let cen = first / area;
                    let tolc = VAR_FACTOR * fv.centroid + 8. * rf.perimeter * tola / rf.area + t.eps;
                    if cen.distance(rf.centroid) > tolc {
                        return Err(format!("{route}: cell {i}, face {:?}: first moments of the base triangles give the centroid {:?}, brute force {:?} (tol {:e})", key, cen, rf.centroid, tolc));
                    }
                }
                cs.count("faces_compared", 1);
            }
            None => {
                let tola = t.eps * 2. * std::f64::consts::PI * (t.r + t.eps) + slack;
                if area > thr + tola {
                    return Err(format!("{route}: cell {i}: base triangles of total area {:e} were fed for a face {:?} that the brute-force cell does not have", area, key));
                }
            }
        }
    }
    Ok(())
}

fn run_route<M: ConvexCellMarker + 'static>(c: &Case, vi: &VoronoiIntegrator<M>, bundles: &BTreeMap<usize, RefBundle>, route: &str, cs: &mut CaseStats) -> Result<bool, String> {
    let n = c.n();
    let active: Vec<bool> = c.mask.clone().unwrap_or(vec![true; n]);
    let constructed: Vec<usize> = (0..n).filter(|&i| active[i]).collect();
    // ---- cells, without data: one recorder per constructed cell, ascending
    let recs = vi.compute_cell_integrals::<TetRecorder>();
    let order: Vec<usize> = recs.iter().map(|r| r.cell_idx).collect();
    if order != constructed {
        return Err(format!("{route}: compute_cell_integrals yields integrals for cells {:?}, the constructed cells are {:?}", order, constructed));
    }
    let mut any_neg = false;
    for rec in &recs {
        let cell = vi.get_cell_at(rec.cell_idx).ok_or_else(|| format!("{route}: get_cell_at({}) is None for a constructed cell", rec.cell_idx))?;
        any_neg |= check_cell_decomposition(c, cell, rec, &bundles[&rec.cell_idx], route, cs)?;
        // the single-cell entry point must feed the same tetrahedra
        let single = cell.compute_cell_integral::<(), TetRecorder>(());
        if single.tets.len() != rec.tets.len() {
            return Err(format!("{route}: cell {}: ConvexCell::compute_cell_integral feeds {} tetrahedra, VoronoiIntegrator::compute_cell_integrals {}", rec.cell_idx, single.tets.len(), rec.tets.len()));
        }
    }
    // ---- faces, without data
    let frecs = vi.compute_face_integrals::<TriRecorder>();
    let mut per_cell: BTreeMap<usize, Vec<&TriRecorder>> = BTreeMap::new();
    let mut last = 0usize;
    for f in &frecs {
        let r = f.integral();
        if f.left() != r.cell_idx {
            return Err(format!("{route}: a face integral reports left() = {} but was initialised for cell {}", f.left(), r.cell_idx));
        }
        if r.cell_idx < last {
            return Err(format!("{route}: face integrals are not grouped by ascending cell index"));
        }
        last = r.cell_idx;
        per_cell.entry(r.cell_idx).or_default().push(r);
    }
    for (&i, list) in &per_cell {
        if !active[i] {
            return Err(format!("{route}: face integrals were computed for the unconstructed cell {i}"));
        }
        let cell = vi.get_cell_at(i).unwrap();
        check_face_decomposition(c, cell, list, &bundles[&i], route, cs)?;
    }
    // ---- faces through the SYMMETRIC entry point: the same predicates on the faces it reports
    // (it skips faces already reported by a constructed lower-index neighbour without shift, but
    // what it does report must be the same decomposition)
    let srecs = vi.compute_face_integrals_sym::<TriRecorder>();
    let mut per_cell_sym: BTreeMap<usize, Vec<&TriRecorder>> = BTreeMap::new();
    for f in &srecs {
        let r = f.integral();
        if f.left() != r.cell_idx {
            return Err(format!("{route}: a symmetric face integral reports left() = {} but was initialised for cell {}", f.left(), r.cell_idx));
        }
        per_cell_sym.entry(r.cell_idx).or_default().push(r);
    }
    for (&i, list) in &per_cell_sym {
        if !active[i] {
            return Err(format!("{route}: symmetric face integrals were computed for the unconstructed cell {i}"));
        }
        let cell = vi.get_cell_at(i).unwrap();
        check_face_decomposition(c, cell, list, &bundles[&i], &format!("{route}, symmetric variant"), cs)?;
    }
    cs.count("sym_faces_checked", srecs.len() as u64);
    // ---- per-cell data: extra_data[k] = (k, payload) must reach the cell with generator index k
    let data: Vec<Payload> = (0..n).map(|k| (k, 0xC14_0000u64 + (k as u64) * 7919)).collect();
    let with_data = vi.compute_cell_integrals_with_data::<Payload, TetRecorderData>(&data);
    let order: Vec<usize> = with_data.iter().map(|r| r.cell_idx).collect();
    if order != constructed {
        return Err(format!("{route}: compute_cell_integrals_with_data yields integrals for cells {:?}, the constructed cells are {:?}", order, constructed));
    }
    for r in &with_data {
        if r.data != data[r.cell_idx] {
            return Err(format!("{route}: cell {} received the data of cell {} (payload {:#x}) through compute_cell_integrals_with_data", r.cell_idx, r.data.0, r.data.1));
        }
    }
    for (what, list) in [
        ("compute_face_integrals_with_data", vi.compute_face_integrals_with_data::<Payload, TriRecorderData>(&data)),
        ("compute_face_integrals_sym_with_data", vi.compute_face_integrals_sym_with_data::<Payload, TriRecorderData>(&data)),
    ] {
        for f in &list {
            let r = f.integral();
            if r.data != data[r.cell_idx] {
                return Err(format!("{route}: a face of cell {} received the data of cell {} through {what}", r.cell_idx, r.data.0));
            }
            if f.left() != r.cell_idx {
                return Err(format!("{route}: {what}: left() = {} for a face initialised for cell {}", f.left(), r.cell_idx));
            }
        }
        if what == "compute_face_integrals_with_data" && list.len() != frecs.len() {
            return Err(format!("{route}: {what} yields {} faces, compute_face_integrals {}", list.len(), frecs.len()));
        }
        cs.count("faces_with_data_checked", list.len() as u64);
    }
    cs.count("cells_with_data_checked", with_data.len() as u64);
    Ok(any_neg)
}

pub fn check(c: &Case, cs: &mut CaseStats) -> Result<(), String> {
    gen::classify(c, cs);
    if !gen::is_valid(c) {
        return Err("INFRA: generator produced an invalid case".into());
    }
    let n = c.n();
    let vi = obs::integrator(c, c.mask.as_deref());
    if unresolvable(c) {
        cs.label("unresolvable-arrangement");
        return Ok(());
    }
    let active: Vec<bool> = c.mask.clone().unwrap_or(vec![true; n]);
    let bundles: BTreeMap<usize, RefBundle> = (0..n).filter(|&i| active[i]).map(|i| (i, ref_bundle(c, i))).collect();
    let mut any_neg = run_route(c, &vi, &bundles, "without stored faces", cs)?;
    if c.dim == 3 {
        let vf = vi.with_faces();
        any_neg |= run_route(c, &vf, &bundles, "with stored faces", cs)?;
        cs.label("with-faces-route");
    }
    if any_neg {
        cs.label("negative-tetrahedron");
    }
    let mixed = cs.labels.contains("mask:mixed");
    if mixed {
        cs.label("data-under-mixed-mask");
    }
    if any_neg {
        cs.nt();
    }
    Ok(())
}

pub fn def() -> PropDef {
    PropDef {
        id: "C14",
        rule: "first clause: this check's binary links the integral-trait implementations of the separate crate /verif/downstream (public API, no hook feature); the crate is also built on its own before every run and a compile error is the violation. cases: all families x masks (none / all-true / all-false / single / complement / prefix / Bernoulli), dims 1-3, periodic or not, n <= 24, offsets to 2^16; 3D additionally through with_faces(). oracle: (a) for every constructed cell the signed sum (sign by the documented orientation rule, evaluated by the harness) over the recorded tetrahedra of the 10 monomials 1, x_i, x_i x_j about the generator equals the moments of the brute-force reference cell (tolerance: volume tolerance of C01 x R^degree); apex bitwise equal to the generator; (b) every base triangle vertex of a face integral lies in that face's plane, signed triangle areas sum to the reference face area and their first moments give the reference face centroid, no face integral for planes outside the active subspace or for faces the reference does not have; the same for the faces reported by the symmetric entry point; (c) extra_data[k] = (k, payload_k) reaches the cell / the faces of the cell with generator index k through the three *_with_data entry points, results cover exactly the constructed cells in ascending order; (d) the same through with_faces() in 3D; everything is executed against the default (rayon) build and against the sequential build of the library. non-trivial: some cell's decomposition contains a negatively oriented tetrahedron (the correction mechanism is exercised); sub-label: data delivered under a mixed mask; distinct by case hash.",
        strategy,
        check,
        cases: |t| t.pick(3000, 100_000),
        // "seq" = the same binary built without the library's rayon feature (the *_with_data entry
        // points have separate sequential code paths)
        profiles: &["release", "seq"],
        required: &["negative-tetrahedron", "data-under-mixed-mask", "with-faces-route", "dim1", "dim2", "dim3", "periodic"],
        fixed: None,
        assumptions: &["by linearity the monomial basis up to degree 2 decides every polynomial integrand of degree <= 2; higher moments are not exercised", "exemptions of C01 (ill-conditioned cells' faces, unresolvable arrangements, low-dimensional areas at coordinates > 1e10)"],
    }
}

fn main() {
    // shards are instances of this very binary
    if let Ok(exe) = std::env::current_exe() {
        std::env::set_var("MVV_BIN_RELEASE", exe);
    }
    mvv::cli::main_with(&|id| if id == "C14" { Some(def()) } else { None });
}
