#!/bin/bash
# run the thorough tier of every registered check, one after the other (hours); prints one line
# per check. With `vp run --with-repo` the checks are built against the repository snapshot
# ($VP_RUN_REPO), so that work going on in /repo meanwhile cannot disturb them.
cd "$(dirname "$0")/.."
[ -n "${VP_RUN_REPO:-}" ] && export MVV_REPO="$VP_RUN_REPO"
./setup.sh >/dev/null 2>&1
for id in ${*:-C19 C10 C17 C18 C20 C13 C08 C15 C12 C07 C06 C14 C11 C16 C03 C04 C01 C02 C09 C05}; do
  s=$(date +%s)
  out=$(VERIF_SEED=${VERIF_SEED:-0} ./check $id --tier thorough 2>&1 | grep -E "^(VIOLATION|OK|INCONCLUSIVE|failure|fuzz)" | head -6 | cut -c1-500)
  echo "[$id $(( $(date +%s) - s )) s] $out"
done
