#!/bin/bash
# run the quick tier of every registered check on /repo as it is (regenerates all evidence files)
cd "$(dirname "$0")/.."
if ! git -C /repo diff --quiet; then echo "/repo is dirty"; exit 2; fi
ids=$(python3 -c "import json;print(' '.join(c['property_id'] for c in json.load(open('MANIFEST.json'))['checks']))")
rc=0
for id in ${*:-$ids}; do
  out=$(VERIF_SEED=${VERIF_SEED:-0} ./check $id 2>&1 | grep -E "^(VIOLATION|OK|INCONCLUSIVE)" | head -2)
  echo "$out"
  case "$out" in OK*) ;; *) rc=1;; esac
done
exit $rc
