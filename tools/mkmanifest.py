#!/usr/bin/env python3
"""Regenerate /verif/MANIFEST.json from the table below (keeps it valid at all times)."""
import json, subprocess, sys, os
ROOT = os.path.dirname(os.path.dirname(os.path.abspath(__file__)))
DONE = {
 # id: (technique, level text, level note, design ref)
 "C01": ("property-based differential testing against a brute-force reference model (proptest, sharded), tolerances from measured input sensitivity; plus metamorphic testing without a reference (relabelling, reflection, axis permutation, exact power-of-two scaling) on larger inputs; thorough tier adds a coverage-guided libFuzzer campaign (cargo-fuzz target fz_c01, 16 jobs x 60 000 executions) on the metamorphic oracle",
         "Exploration: thousands of generated point sets (13 families incl. degenerate ones, 1D/2D/3D, periodic or not, anisotropic boxes, large offsets), every cell compared in both directions with an independent brute-force Voronoi cell (volume, centroid, complete face map with neighbour identity / shift / area / centroid, vertices). A second stream (n to 300 / 1200) compares every cell of the tessellation with that of the relabelled / reflected / axis-permuted / power-of-two-scaled input through the transform. Finds missing or spurious neighbours, wrong security radius / termination / image enumeration; cannot establish absence.",
         "Trusted: the harness' reference model (validated by `mvv selftest` against direct nearest-site queries), the tolerance policy (8x measured variation under input rounding + 2^14 u L kappa floor). Exempt: faces/vertices of cells with an ill-conditioned vertex, face areas in 1D/2D for coordinates > 1e10 (known findings), inputs whose arrangement is not determined up to rounding.", "5 C01, 4"),
 "C02": ("property-based invariant testing (proptest, sharded): positivity and tiling of the box, three integration routes",
         "Exploration: generated point sets up to 600 (quick) / 4000 (thorough) generators over all families plus 1 % density-contrast inputs (a clump of 1200..3000 / 8000 generators next to a few big cells), dimensionalities, boundary kinds, aspect ratios to 2^14 and offsets to 2^30; oracle = a-priori identity sum(V_i) = box measure with a rounding bound that does not use the library's faces.",
         "Trusted: tolerance model (eps_pos * kappa * surface of the safety ball + snapping uncertainty of close pairs).", "5 C02"),
 "C03": ("property-based all-pairs reciprocity check on the non-symmetric face integrals + structural check of the compact face list (proptest, sharded)",
         "Exploration: generated inputs x masks up to n = 600/1500; every face seen from cell i is joined with the face seen from cell j (exact negated shift, equal area / shifted centroid up to rounding, opposite plane normals); storage multiplicity in the compact tessellation; antisymmetric flux cancellation.",
         "Trusted: tolerance from the library's own conditioning (eps_pos * kappa + snapping of close pairs). Exempt: pairs involving an ill-conditioned cell, 1D/2D at coordinates > 1e10, unresolvable arrangements.", "5 C03"),
 "C04": ("property-based invariant testing: orientation of every stored normal, wall normals, centroid on the bisector, closure and divergence identities per cell (proptest, sharded)",
         "Exploration: generated inputs x masks up to n = 400/1500 (plus shell inputs with hundreds of faces per cell and density-contrast inputs with a clump of 1200..3000 / 6000 generators), all dimensionalities; identities hold for every constructed cell of every generated tessellation, also through the with-faces route in 3D; for ill-conditioned cells the closure of the cell's own face integrals is still checked.",
         "Trusted: tolerance from the library's own conditioning; negligible faces (area <= 1e-9 of the face scale) are left out of the sums with a bound on their contribution. Same exemptions as C03.", "5 C04"),
 "C06": ("property-based differential testing (periodic vs the library's non-periodic mode on the 3^d-fold replicated input) + metamorphic translation + structural shift checks (proptest, sharded); thorough tier adds a coverage-guided libFuzzer campaign (cargo-fuzz target fz_c06, 16 jobs x 40 000 executions) on the same oracle",
         "Exploration: periodic inputs n = 1..24 (n = 1, 2 emphasised) in all dimensionalities and box shapes, random and seam-aligned translations.",
         "Trusted: the non-periodic mode as reference (its own correctness is C01); tolerance from the library's own conditioning.", "5 C06"),
 "C07": ("property-based differential testing (partial vs full build) + exhaustive enumeration of all 2^n masks for small inputs; thorough tier adds a coverage-guided libFuzzer campaign (cargo-fuzz target fz_c07, 16 jobs x 30 000 executions) on the same oracle",
         "Exploration with an exhaustively enumerated sub-space: random (input, mask) pairs up to n = 200/400 and ALL 2^n masks of small inputs (n <= 6 quick, <= 10 thorough); oracle = the full build of the same input (bitwise for cell values, set equality for faces, bookkeeping rules for selected/unselected faces).",
         "Trusted: the full build as the reference for the partial one (its own correctness is C01).", "5 C07"),
 "C12": ("property-based model checking of the index structure against a model rebuilt from faces() (proptest, sharded); thorough tier adds a coverage-guided libFuzzer campaign (cargo-fuzz target fz_c12, 16 jobs x 100 000 executions) on the same oracle",
         "Exploration: generated inputs x masks x three construction routes (direct, Voronoi::from(&integrator), in 3D Voronoi::from(&integrator.with_faces())) up to n = 600/2000; oracle = the expected connectivity rebuilt from the face list alone (prefix sums, exact membership, duplicate freedom, neighbour iterator incl. unconstructed cells).",
         "Trusted: faces() left/right/shift as ground truth for the model (their correctness is C01/C03).", "5 C12"),
 "C13": ("property-based differential testing, bitwise (proptest, sharded); thorough tier adds a coverage-guided libFuzzer campaign (cargo-fuzz target fz_c13, 16 jobs x 60 000 executions) on the same oracle",
         "Exploration: generated inputs x masks, both routes and all built-in integrals compared bit for bit (canonical dump), ordered-list relation between symmetric and non-symmetric face integrals, with/without stored faces up to rounding.",
         "Trusted: nothing beyond the harness; the with-faces comparison is restricted to well-conditioned cells.", "5 C13"),
 "C08": ("property-based metamorphic testing (garbage in unused coordinates, bitwise) + closed-form 1D model + differential 2D vs 3D slab (proptest, sharded); thorough tier adds a coverage-guided libFuzzer campaign (cargo-fuzz target fz_c08, 16 jobs x 100 000 executions) on the same oracle",
         "Exploration: 1D/2D inputs from all families x masks with finite garbage in every unused component (incl. +-1e300, subnormals, f64::MAX); bitwise metamorphic relation, 1D closed form, 2D vs unit-thickness 3D slab, unit in-subspace normals.",
         "Trusted: the 3D mode as the reference for 2D (its own correctness is C01); tolerance from the library's own conditioning.", "5 C08"),
 "C10": ("exhaustive enumeration on small integer grids + property-based testing (random / adversarial co-spherical tuples) against an independent big-integer determinant; monotonicity and range of the grid map over generated boxes/positions",
         "Exploration with exhaustively enumerated sub-spaces: all 5-tuples of the 2x2x2 grid at three offsets (quick), 3x3x3 at two offsets (thorough); random 52-bit tuples; exactly co-spherical quintuples and +-1 perturbations scaled up to 2^48; grid map: generators of generated boxes, all periodic images and mirror images, neighbours one ulp apart, in release and debug-assertion builds.",
         "Trusted: the harness' Bareiss determinant over num-bigint (cross-checked by the geometric circumcentre reading and on small grids by i128).", "5 C10"),
 "C19": ("property-based testing of defining equations over generated asymmetric, well-conditioned arguments (proptest, sharded)",
         "Exploration: tens of thousands (quick) / millions (thorough) of generated planes, points, tetrahedra, triangles, spheres with magnitudes 1e-3..1e6 and deliberately asymmetric coordinates; every exported helper checked against its defining equation; extend also on single-point (radius exactly 0) and two-point spheres, three-point spheres also on thin triangles (smallest angle down to 1e-8 rad, tolerance 1e-12 / sin(theta)).",
         "Trusted: tolerances scaled by magnitude and conditioning (stated in the rule).", "5 C19"),
 "C17": ("property-based model testing: the drained candidate iterator (hook nn_sequence) against the model 'sort all images by distance' (proptest, sharded)",
         "Exploration: point sets of 1..2500 (quick) / 10^4 (thorough) generators (uniform, clustered, lattices with many equidistant candidates, boundary, ...), all dimensionalities and box shapes, periodic or not, 4-6 query generators per set incl. first/last/closest to the seam; completeness as exact multiset equality, order up to rounding of the heap keys, shift encoding bitwise.",
         "Trusted: the hook returns the very iterators ConvexCell::build consumes (thin wrapper, see verif_hooks.rs); order tolerance 8 u L on positions.", "5 C17"),
 "C16": ("property-based testing: bound against the brute-force reference cell + history/metamorphic relation (append generators outside the safety ball in batches, rebuild, compare the cell) (proptest, sharded); thorough tier adds a coverage-guided libFuzzer campaign (cargo-fuzz target fz_c16, 16 jobs x 20 000 executions) on the same oracle",
         "Exploration: thousands of generated inputs (n to 120 quick / 300 thorough, all dimensionalities, periodic or not, anisotropic boxes); per input the vertex bound for every cell, the brute-force bound for up to 4 cells, and one history of 1..20 additions in 1..3 batches placed by construction just outside (1.0..1.5 radii) or anywhere outside the safety ball; the vertex bound is applied to the radius reported through every entry point (Voronoi::build, Voronoi::from of either integrator, cells with stored faces, with_faces().discard_faces()).",
         "Trusted: the harness' reference model (C01), the conditioning-derived tolerance for 'unchanged up to rounding'. Over-estimates of the radius are legal and never flagged.", "5 C16"),
 "C18": ("property-based testing over histories with exhaustive enumeration of storage orders: all r! orders of the removed vertices for r <= 7 (sampled above), all permutations of small vertex arrays, random rotations of every plane triple, replayed clip histories (proptest, sharded; hook cell_clip = ConvexCell::clip_by_plane)",
         "Exploration with exhaustively enumerated sub-spaces: thousands of reachable cells (box + first K <= 12 candidates of the production iterator) x a further plane; about 10^6 (quick) permuted clips; for every cell with <= 7 removed vertices all storage orders of the removed set are executed; 2 % ring inputs (a generator inside a ring of 12..130 coplanar neighbours) give single clips that remove up to 130 vertices (sampled orders).",
         "Trusted: canonical form = rotation-normalised cyclic plane triples; volume tolerance from the conditioning of the result. exhaustive only within the stated sub-space (orders of <= 7 removed vertices per generated cell).", "5 C18"),
 "C20": ("property-based model testing: Space::knn against a brute-force sort with exact tie handling; bounding spheres against containment predicates and a brute-force minimum over all 2-, 3-, 4-point support sets (proptest, sharded; hooks space_knn, welzl, epos6, epos6_spheres)",
         "Exploration: thousands of generated boxes (aspect to 2^4 quick / 2^6 thorough, offsets to 2^20 widths), grids of 1..16/40 cells per axis or one cell, particle sets n = 1..400/600 (uniform, clustered, exact lattices, thin slabs), k in {0, 1, n-1, any}, 1 case in 16 with coincident particles; every particle's list compared rank by rank; Welzl minimality for n <= 14, containment for Welzl (n <= 60), Epos6 and Epos6 spheres-of-spheres.",
         "Trusted: brute-force oracles of the harness. Welzl failures on sets with (nearly) degenerate support (structural predicate on the input: exact lattice, exactly collinear / coplanar subsets, pairs closer than 1e-3 of the extent) are the known finding welzl-degenerate-support (run through the full oracle, counted, never a verdict); Welzl::bounding_sphere_of_spheres is unimplemented!() by design.", "5 C20"),
 "C05": ("property-based testing on degenerate-weighted generated inputs in release and debug-assertion builds: totality (no panic), finiteness, and the unchanged oracles of C01-C04 on the same results; hook counter proves the exact predicate ran",
         "Exploration: 12 000 (quick) / 400 000 (thorough) generated degenerate inputs per build profile, thorough also a libFuzzer campaign (fz_tess, 16 x 100 000 executions) (exact / perturbed lattices, wall / edge / corner points, co-spherical, collinear, coplanar, dyadic, shared-coordinate, clusters to 1e-12, n = 1, 2; plus lattices in far-from-origin boxes perturbed at the level of the coordinate rounding), masks mixed, all dimensionalities, periodic or not.",
         "Trusted: the oracles of C01-C04 with their stated exemptions (ill-conditioned cells, unresolvable arrangements). Termination is observed through a watchdog (exit 2 = inconclusive, never a violation).", "5 C05"),
 "C14": ("compile-time check of a separate downstream crate + property-based differential testing of the recorded decomposition (signed moments up to degree 2, face triangles) against the brute-force reference cell; data delivery under generated masks; default and sequential builds of the library",
         "Exploration: 3 000 (quick) / 100 000 (thorough) generated inputs x masks per build (rayon and sequential), all dimensionalities, periodic or not, 3D also through with_faces(); every constructed cell's tetrahedra and every face's base triangles are recorded by trait implementations living in /verif/downstream.",
         "Trusted: the harness' reference model and the orientation rule as documented; by linearity the 10 monomials decide all polynomial integrands of degree <= 2, higher degrees are not exercised. Exempt: with_faces() integrals of ill-conditioned cells (known finding).", "5 C14"),
 "C09": ("property-based differential testing, bitwise: the default (rayon) build under generated pool sizes (1..64 threads), repetitions and seeded per-cell delays (hook set_jitter, completion order logged) against the sequential build of the library running as a separate process",
         "Exploration of schedules, not enumeration: 400 (quick) / 6000 (thorough) generated inputs x masks, each run in 5 (thorough: 9) explicit rayon pools with jitter off (twice) and 2 (thorough: 4) seeded jitter settings, about 8000 (quick) parallel runs compared section by section with the sequential build; the evidence counts the distinct completion orders observed (thousands).",
         "Trusted: nothing beyond the harness. Limits (DESIGN.md section 6): rayon's work-stealing decisions cannot be owned by a test; a data race that leaves results intact is invisible; the jitter hook delays the build loops only.", "5 C09, 6"),
 "C11": ("property-based differential testing across four builds of the same binary (big-integer backends ibig, dashu, malachite, num_bigint as separate processes), bitwise, plus exhaustive small-grid tuples and an independent determinant",
         "Exploration with an exhaustively enumerated sub-space: 1500 (quick) / 60 000 (thorough) degenerate-weighted inputs (exact path taken in about half of them) each with 8 integer 5-tuples; all 8^5 (quick) / 27^5 (thorough) 5-tuples of a small grid at two offsets; tessellation dumps, exact-call counters and predicate signs compared across all four backends and with the harness' determinant.",
         "Trusted: the harness' Bareiss determinant (C10). rug cannot be built offline and is not compared.", "5 C11"),
 "C15": ("property-based testing with validity predicates in both directions on every with_faces() cell + stateful generation (operation sequences over with_faces / discard_faces / clone / integrals / accessors with a one-bit model) + rejection of 1D/2D; release and debug-assertion builds; thorough tier adds a coverage-guided libFuzzer campaign (cargo-fuzz target fz_c15, 16 jobs x 20 000 executions) on the same oracle",
         "Exploration: 3000 (quick) / 120 000 (thorough) generated inputs per build profile (90% 3D from all families x masks, 10% 1D/2D), about 60 000 cells / 550 000 polygons / 10^6 vertices per quick run; geometric predicates on well-conditioned cells, combinatorial ones (incidence, edge sharing, Euler, ordering, accessor agreement, round trip) on all. Thorough tier additionally replays the small cases of corpus/C15-miri/ through the same oracle under Miri (undefined-behaviour detection for the transmute / unwrap_unchecked paths).",
         "Trusted: nothing beyond the harness. The type-state invariant behind the unchecked accessors is exercised on every public transition sequence but cannot be shown for code paths that do not exist yet (DESIGN.md section 6).", "5 C15, 6"),
}
NOT_YET = "check under construction (work in progress; see DESIGN.md section 5)"
ALL = ["C%02d" % i for i in range(1, 21)]
checks = []
for pid in ALL:
    if pid in DONE:
        tech, text, note, ref = DONE[pid]
        checks.append({
            "property_id": pid,
            "quick_cmd": f"./check {pid} --tier quick",
            "thorough_cmd": f"./check {pid} --tier thorough",
            "evidence_file": f"/verif/evidence/{pid}.json",
            "replay_cmd_template": f"./check {pid} --replay {{path}}",
            "engine": "mvv14" if pid == "C14" else "mvv",
            "level_claimed": {"category": "exploration", "text": text, "design_ref": "DESIGN.md section " + ref},
            "level_note": note,
            "technique": tech,
        })
hooks = subprocess.run(["git", "-C", "/repo", "log", "--format=%h %s"], capture_output=True, text=True).stdout.splitlines()
hook_commits = [l.split()[0] for l in hooks if l.split(" ", 1)[1].startswith("verif hooks")]
m = {
 "version": 1,
 "setup_cmd": "./setup.sh",
 "hooks": {
   "guard": "cargo feature verif_hooks",
   "enable": "--features verif_hooks (path dependency of /verif/harness on /repo)",
   "baseline_off_cmd": "cd /repo && cargo test --workspace --no-fail-fast --offline",
   "source_commits": hook_commits,
   "add_only": True,
 },
 "engines": [{"name": "mvv14", "path": "/verif/c14", "serves_properties": ["C14"], "kind_free_text": "satellite binary of the same engine (shares runner, generators, reference model through the mvv library) that links the downstream crate /verif/downstream; separate so that a compile failure of the downstream crate (the first clause of C14) cannot break the other checks"}, {"name": "mvv", "path": "/verif/harness", "serves_properties": sorted(p for p in DONE if p != "C14"), "kind_free_text": "Rust harness: sharded proptest runner (one process per shard), case files with bit-exact floats, brute-force reference model, replay / minimise / survey commands; cargo-fuzz targets share the oracles"}],
 "checks": checks,
 "not_applicable": [{"property_id": p, "reason": NOT_YET} for p in ALL if p not in DONE],
 "notes": "Every check is `./check <ID>`: rebuilds the harness against /repo's working tree, runs 16 shard processes, writes evidence/<ID>.json. exit 0 held / 1 VIOLATION / 2 inconclusive (build failure, watchdog, generator regression). Known findings: known_findings.txt.",
}
json.dump(m, open(os.path.join(ROOT, "MANIFEST.json"), "w"), indent=1)
print("MANIFEST.json:", len(checks), "checks,", len(m["not_applicable"]), "not applicable")
