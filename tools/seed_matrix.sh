#!/bin/bash
# Re-run every stored seeded change against the quick tier of the check of the property it was
# written against and of the checks recorded as catching it; prints one line per (seed, check).
# With `vp run --with-repo` the patches are applied to the repository snapshot ($VP_RUN_REPO) and the
# checks are built against it, so /repo itself stays untouched.
cd "$(dirname "$0")/.."
REPO="${VP_RUN_REPO:-/repo}"
if [ "$REPO" != "/repo" ]; then export MVV_REPO="$REPO"; ./setup.sh >/dev/null 2>&1; fi
if ! git -C "$REPO" diff --quiet; then echo "$REPO is dirty, refusing"; exit 2; fi
for d in seeded/*/; do
  name=$(basename $d)
  ids=$(python3 -c "
import json;m=json.load(open('$d/meta.json'));print(' '.join(dict.fromkeys([m['breaks_property']]+m['caught_by_quick_checks'])))")
  git -C "$REPO" apply "$PWD/$d/patch.diff" || { echo "$name: patch does not apply"; continue; }
  for id in $ids; do
    out=$(./check $id 2>&1 | grep -E "^(VIOLATION|OK|INCONCLUSIVE)" | head -1 | cut -c1-60)
    echo "$name $id ${out%% *}"
  done
  git -C "$REPO" checkout -- .
done
