#!/bin/bash
# Run registered checks against a seeded change: apply it to /repo, run, undo straight afterwards.
#   usage: tools/seed_run.sh <patch.diff> <ID>...
cd "$(dirname "$0")/.."
P="$1"; shift
if ! git -C /repo diff --quiet; then echo "/repo is dirty, refusing"; exit 2; fi
git -C /repo apply "$P" || exit 2
for id in "$@"; do
  out=$(VERIF_SEED=${VERIF_SEED:-0} ./check $id 2>&1 | grep -E "^(VIOLATION|OK|INCONCLUSIVE|failure)" | head -3 | cut -c1-400)
  echo "[$id] $out"
done
git -C /repo checkout -- .
