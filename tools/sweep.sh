#!/bin/bash
# quick tier of every check for several VERIF_SEED values (silence on the unchanged tree across
# PRNG streams). usage: tools/sweep.sh <seed>... ; with `vp run --with-repo` built against the
# repository snapshot.
cd "$(dirname "$0")/.."
[ -n "${VP_RUN_REPO:-}" ] && export MVV_REPO="$VP_RUN_REPO"
./setup.sh >/dev/null 2>&1
ids=$(python3 -c "import json;print(' '.join(c['property_id'] for c in json.load(open('MANIFEST.json'))['checks']))")
for seed in "$@"; do
  for id in $ids; do
    out=$(VERIF_SEED=$seed ./check $id 2>&1 | grep -E "^(VIOLATION|OK|INCONCLUSIVE|failure)" | head -3 | cut -c1-400)
    echo "[seed $seed] $out"
  done
done
