#!/bin/bash
# Confirm a sub-agent's seeded change in its scratch worktree:
#   (a) demo passes on the clean tree, (b) with the patch the repository's tests still pass,
#   (c) with the patch the demo fails.       usage: tools/seed_verify.sh <worktree> <outdir>
WT="$1"; OUT="$2"
cd "$WT" || exit 2
git checkout -q -- . ; git clean -fdq -e target
demo_apply() {
  if [ -f "$OUT/demo_test.rs" ]; then cp "$OUT/demo_test.rs" tests/demo_test.rs; fi
  if [ -f "$OUT/demo.diff" ]; then git apply "$OUT/demo.diff" || { echo "demo.diff does not apply"; exit 2; }; fi
}
demo_run() {
  if [ -f "$OUT/demo_test.rs" ]; then cargo test --offline --test demo_test 2>&1 | tail -40
  else cargo test --offline --lib ${DEMO_FILTER:-demo} 2>&1 | tail -40; fi
}
demo_apply
echo "=== (a) demo on the clean tree"; demo_run > /tmp/seedv.a.log; grep -E "^test result" /tmp/seedv.a.log
git checkout -q -- . ; git clean -fdq -e target
git apply "$OUT/patch.diff" || { echo "patch.diff does not apply"; exit 2; }
echo "=== (b) repository tests with the patch"; cargo test --offline --no-fail-fast 2>&1 | grep -E "^test result|FAILED|failed|warning: unused" | head
demo_apply
echo "=== (c) demo with the patch"; demo_run > /tmp/seedv.c.log; grep -E "^test result|panicked" /tmp/seedv.c.log | head -5
git checkout -q -- . ; git clean -fdq -e target
