#!/bin/bash
# Thorough tier of C15: replay the small cases of corpus/C15-miri/ through the same oracle under
# Miri (sequential build of the library), so that the unsafe blocks of the with-faces path
# (transmute between marker states, unwrap_unchecked on the face data) are executed with
# undefined-behaviour detection.  exit 0 / 1 (VIOLATION printed) / 2 (inconclusive)
cd "$(dirname "$0")/.."
ROOT="$(pwd)"; ID="${1:-C15}"
rc=0; n=0; t0=$(date +%s)
for f in "$ROOT"/corpus/C15-miri/*.json; do
  out=$( cd harness && MIRIFLAGS="-Zmiri-disable-isolation" MVV_VERIF_ROOT="$ROOT" timeout 1800 cargo +nightly miri run --offline --no-default-features --features ibig --bin mvv --target-dir ../target/miri -- replay "$ID" "$f" 2>&1 )
  st=$?
  n=$((n+1))
  if echo "$out" | grep -q "Undefined Behavior"; then
    echo "$out" | grep -A12 "Undefined Behavior" | head -20
    echo "failure: Miri reports undefined behaviour while replaying $f"
    echo "VIOLATION property=$ID replay=$f"; rc=1
  elif echo "$out" | grep -q "^VIOLATION"; then
    echo "$out" | grep -E "^failure|^VIOLATION" | head -3; rc=1
  elif [ $st -ne 0 ]; then
    echo "INCONCLUSIVE property=$ID miri run failed on $f (exit $st)"; echo "$out" | tail -5; [ $rc -eq 0 ] && rc=2
  fi
done
python3 - "$ROOT/evidence/$ID.json" "$n" "$(( $(date +%s) - t0 ))" "$rc" <<'PY'
import json,sys
p,n,wall,rc=sys.argv[1:5]
try:
    e=json.load(open(p)); e["coverage"]["miri"]={"cases_replayed_under_miri":int(n),"wall_s":int(wall),"undefined_behaviour_found":rc=="1"}
    json.dump(e,open(p,"w"),indent=1)
except Exception as ex: print("could not extend evidence:",ex)
PY
echo "miri: $n cases replayed, exit $rc"
exit $rc
