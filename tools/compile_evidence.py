#!/usr/bin/env python3
"""Evidence file for a run of C14 that ended at the first clause (the downstream crate does not compile)."""
import json, sys, os
pid, tier, seed, log = sys.argv[1:5]
root = os.path.dirname(os.path.dirname(os.path.abspath(__file__)))
errs = [l.rstrip() for l in open(log, errors="replace") if l.startswith("error")][:10]
ev = {
    "property_id": pid, "tier": tier if tier in ("quick", "thorough") else "quick", "seed": int(seed), "level": "other",
    "coverage": {
        "evaluations": 1, "distinct_nontrivial": 0, "explanation": "the run ended at the first clause of C14: the downstream crate does not compile against the working tree, which is the violation; no generated case was evaluated",
        "rule": "first clause of C14 only: the downstream crate /verif/downstream (implementations of the four integral traits against the public, un-hooked API) is compiled against /repo's working tree; it did not compile, so no generated case was evaluated",
        "samples": [{"compile_errors": errs}], "exhaustive": False,
    },
    "assumptions": [], "wall_s": 0.0, "violations": 1,
}
json.dump(ev, open(os.path.join(root, "evidence", pid + ".json"), "w"), indent=1)
