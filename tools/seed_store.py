#!/usr/bin/env python3
"""Store a confirmed seeded change: tools/seed_store.py <name> <outdir> <property> '<needs>' '<caught_by csv>' '<missed_by csv>' ['<note>']"""
import sys, json, os, shutil
name, out, prop, needs, caught, missed = sys.argv[1:7]
note = sys.argv[7] if len(sys.argv) > 7 else ""
root = os.path.dirname(os.path.dirname(os.path.abspath(__file__)))
d = os.path.join(root, "seeded", name)
os.makedirs(d, exist_ok=True)
for f in ("patch.diff", "demo_test.rs", "demo.diff", "notes.md"):
    p = os.path.join(out, f)
    if os.path.exists(p):
        shutil.copy(p, os.path.join(d, f))
meta = {
    "breaks_property": prop,
    "origin": "independent sub-agent given only the property text and a scratch worktree of /repo",
    "needs_to_manifest": needs,
    "confirmed_by": [
        "tools/seed_verify.sh <worktree> <outdir>: demo passes on the clean tree; with patch.diff applied `cargo test --offline --no-fail-fast` passes (36 unit + 1 integration + 4 doc tests); with patch.diff applied the demo fails",
        "tools/seed_run.sh seeded/%s/patch.diff <ids>: git -C /repo apply; ./check <id> (quick tier, seed 0); git -C /repo checkout -- ." % name,
    ],
    "caught_by_quick_checks": [x for x in caught.split(",") if x],
    "not_caught_by": [x for x in missed.split(",") if x],
    "note": note,
}
json.dump(meta, open(os.path.join(d, "meta.json"), "w"), indent=1)
print("stored", d)
