#!/bin/bash
# prepare a scratch worktree + prompt for a seeding sub-agent: tools/seed_prep.sh <ID> [suffix]
id="$1"; sfx="${2:-}"
W=/tmp/seed/$id$sfx; O=/tmp/seed/$id$sfx-out
git -C /repo worktree add --detach $W HEAD -q && mkdir -p $O
python3 - "$id" "$W" "$O" <<'PY'
import sys,json
id,W,O=sys.argv[1:4]
for l in open('/verif/properties.jsonl'):
    d=json.loads(l)
    if d['id']==id: p=json.dumps(d,indent=1)
open(O+'/property.json','w').write(p)
t=open('/tmp/seed/PROMPT.txt').read().replace('__WT__',W).replace('__OUT__',O).replace('__PROP__',p)
open(O+'/prompt.txt','w').write(t)
PY
echo "$O/prompt.txt"
