#!/bin/bash
# verify a sub-agent's seeded change and run checks against it: tools/seed_do.sh <name e.g. C03r3> <ID>...
cd "$(dirname "$0")/.."
n="$1"; shift
echo "##### $n"
DEMO_FILTER="${DEMO_FILTER:-demo}" tools/seed_verify.sh /tmp/seed/$n /tmp/seed/$n-out 2>&1 | grep -E "^===|^test result|panicked|does not apply" | cut -c1-160
tools/seed_run.sh /tmp/seed/$n-out/patch.diff "$@" 2>&1 | grep -E "^\[C" | cut -c1-330
