#!/bin/bash
# Coverage-guided part of a thorough tier: tools/fuzz_tier.sh <ID> <target> <runs per job> <seed>
# Builds the libFuzzer targets against /repo's working tree (sequential build of the library,
# debug assertions on, AddressSanitizer), runs 16 jobs of a fixed number of executions each from
# the committed seed corpus (corpus/fuzz/<target>/, may be empty), converts every crash artifact to
# a case file with the same decoder and re-checks it through the plain replay path.
# exit 0 nothing found / 1 VIOLATION printed / 2 inconclusive. Appends its numbers to the evidence.
cd "$(dirname "$0")/.."
ROOT="$(pwd)"; ID="$1"; T="$2"; RUNS="$3"; SEED="${4:-0}"
[ "$SEED" = "0" ] && SEED=1   # libFuzzer: 0 means random
LOG="$ROOT/target/build-logs"; mkdir -p "$LOG"
( cd harness && cargo +nightly fuzz build --fuzz-dir ../fuzz --target-dir ../target/fuzz "$T" >"$LOG/fuzz-$T.log" 2>&1 ) || { echo "INCONCLUSIVE property=$ID fuzz target $T does not build; see $LOG/fuzz-$T.log"; exit 2; }
BIN="$ROOT/target/fuzz/x86_64-unknown-linux-gnu/release/$T"
WORK="$ROOT/target/fuzz-work/$T"; rm -rf "$WORK"; mkdir -p "$WORK/corpus" "$WORK/artifacts" "$WORK/logs"
[ -d "$ROOT/corpus/fuzz/$T" ] && cp "$ROOT/corpus/fuzz/$T"/* "$WORK/corpus/" 2>/dev/null
t0=$(date +%s)
( cd "$WORK/logs" && timeout 3h "$BIN" "$WORK/corpus" -runs="$RUNS" -seed="$SEED" -len_control=0 -max_len=384 -jobs=16 -workers=16 -artifact_prefix="$WORK/artifacts/" -print_final_stats=1 >"$WORK/driver.log" 2>&1 )
rc=$?
t1=$(date +%s)
execs=$(grep -h "stat::number_of_executed_units" "$WORK"/logs/fuzz-*.log 2>/dev/null | awk '{s+=$2} END {print s+0}')
cov=$(grep -h "DONE" "$WORK"/logs/fuzz-*.log 2>/dev/null | sed -E 's/.*cov: ([0-9]+).*/\1/' | sort -n | tail -1)
corp=$(ls "$WORK/corpus" | wc -l)
crashes=$(ls "$WORK/artifacts" 2>/dev/null | grep -c "^crash-\|^timeout-\|^oom-")
python3 - "$ROOT/evidence/$ID.json" "$T" "$execs" "${cov:-0}" "$corp" "$crashes" "$((t1-t0))" "$RUNS" "$SEED" <<'PY'
import json,sys
p,t,execs,cov,corp,crashes,wall,runs,seed=sys.argv[1:10]
try:
    e=json.load(open(p))
    e["coverage"].setdefault("fuzz",{})[t]={"engine":"libFuzzer (cargo-fuzz), 16 jobs","runs_per_job":int(runs),"seed":int(seed),"executions":int(execs),"edges_covered":int(cov),"corpus_files":int(corp),"crash_artifacts":int(crashes),"wall_s":int(wall)}
    json.dump(e,open(p,"w"),indent=1)
except Exception as ex:
    print("could not extend evidence:",ex)
PY
echo "fuzz $T: $execs executions, cov $cov, corpus $corp, artifacts $crashes, ${rc} exit, $((t1-t0)) s"
found=0
for a in "$WORK"/artifacts/crash-* "$WORK"/artifacts/timeout-* "$WORK"/artifacts/oom-*; do
  [ -f "$a" ] || continue
  case "$a" in *timeout-*|*oom-*) echo "INCONCLUSIVE property=$ID fuzz target $T: $(basename $a) (hang / memory), not a verdict"; continue;; esac
  out="$ROOT/replays/$ID-fuzz-$(basename $a | cut -c7-22).json"
  if "$ROOT/target/harness/release/mvv" decode "$T" "$a" "$out"; then
    if ! ./check "$ID" --replay "$out" >"$WORK/replay.log" 2>&1; then
      grep -E "^failure" "$WORK/replay.log" | head -2
      echo "VIOLATION property=$ID replay=$out"
      found=1
    else
      echo "INCONCLUSIVE property=$ID fuzz artifact $(basename $a) crashes the fuzz build (debug assertions + ASan) but the plain replay passes; kept at $a"
      tail -n 5 "$WORK/logs"/fuzz-*.log | grep -E "panicked|ERROR" | head -3
      [ $found -eq 0 ] && found=2
    fi
  fi
done
exit $found
