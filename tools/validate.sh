#!/bin/bash
# validate MANIFEST.json and every evidence file against the given schemas
cd "$(dirname "$0")/.."
python3-vt - <<'PY'
import json,jsonschema,glob,sys
ok=True
try:
    jsonschema.validate(json.load(open('MANIFEST.json')), json.load(open('/root/.vp/MANIFEST.schema.json'))); print('MANIFEST valid')
except Exception as e:
    ok=False; print('MANIFEST INVALID', str(e)[:400])
sch=json.load(open('/root/.vp/EVIDENCE.schema.json'))
for f in sorted(glob.glob('evidence/*.json')):
    try:
        jsonschema.validate(json.load(open(f)), sch)
    except Exception as e:
        ok=False; print(f,'INVALID',str(e)[:300])
print('evidence files checked')
sys.exit(0 if ok else 1)
PY
